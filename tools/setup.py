#!/venv/bin/python
"""MANIFEST.setup_cmd: make sure Hypothesis is importable by /venv/bin/python, offline."""
import os
import subprocess
import sys

HERE = os.path.dirname(os.path.dirname(os.path.abspath(__file__)))
WHEELS = "/opt/veriftools/wheels"


def have():
    deps = os.path.join(HERE, ".deps")
    code = f"import sys; sys.path.append({deps!r}); import hypothesis, numpy; print(hypothesis.__version__)"
    return subprocess.run([sys.executable, "-c", code], capture_output=True, text=True)


r = have()
if r.returncode != 0:
    subprocess.run([sys.executable, "-m", "pip", "install", "--no-index", "--find-links", WHEELS, "hypothesis"])
    r = have()
if r.returncode != 0:
    subprocess.run([sys.executable, "-m", "pip", "install", "--no-index", "--find-links", WHEELS,
                    "--target", os.path.join(HERE, ".deps"), "hypothesis"])
    r = have()
if r.returncode != 0:
    print("setup failed: hypothesis not importable", r.stderr)
    sys.exit(1)
print("hypothesis", r.stdout.strip(), "ok")
