#!/bin/bash
# usage: tools/try_patch.sh <patch.diff> <ID> [extra run.py args]
# Applies a patch to a scratch copy of /repo/src (outside /repo and /verif), runs the quick check of <ID>
# against it (OSYRIS_SRC), removes the copy.  Exit code = the check's exit code.
set -u
PATCH=$(readlink -f "$1"); ID=$2; shift 2
TMP=$(mktemp -d /tmp/trypatch_XXXXXX)
cp -r /repo/src "$TMP/src"
rm -rf "$TMP/src/osyris.egg-info"
( cd "$TMP" && git apply -p1 "$PATCH" ) || { echo "patch does not apply"; rm -rf "$TMP"; exit 3; }
VERIF_EVIDENCE_DIR="${VERIF_EVIDENCE_DIR:-$TMP/ev}" OSYRIS_SRC="$TMP/src" /venv/bin/python /verif/run.py "$ID" "$@" 2>&1 | grep -v auto_activate_base
RC=${PIPESTATUS[0]}
rm -rf "$TMP"
exit $RC
