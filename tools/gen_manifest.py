#!/venv/bin/python
"""Regenerates /verif/MANIFEST.json from the table below (kept next to the checks so it stays current)."""
import json
import os

HERE = os.path.dirname(os.path.dirname(os.path.abspath(__file__)))
PY = "/venv/bin/python"

# property -> (technique, level text, level note, design ref)
CHECKS = {
    "C20": (
        "model-based PBT over operation histories (python dict as reference model) + generated Datagroup pairs "
        "against an independent content-equality oracle (Hypothesis, shrinking, replay files)",
        "Generated histories of dictionary operations on Datagroup and Dataset are compared step by step with a "
        "python dict; generated pairs of groups (identical / unit-converted / partly / wholly different / different "
        "keys) are compared with an independent element-wise oracle. Exploration of a universally quantified "
        "property: bounded histories (<=14 ops, 5 keys) and group sizes (<=6 rows, <=4 members).",
        "Trusted: python dict semantics as the reference; integer-valued data so that equality after unit "
        "conversion is exact. Not covered: histories longer than the bound; incompatible-unit members in ==.",
        "DESIGN.md section 3 C20"),
    "C06": (
        "model-based PBT over operation histories: numpy index semantics as the reference model, hidden row-id "
        "member for provenance under sorting (Hypothesis, shrinking, replay files)",
        "Generated histories of insert/replace/update/delete/pop/alias/shallow-copy/clear+update/index/sortby on a "
        "Datagroup mixing Arrays and Vectors of four dtypes are compared after every step with a numpy model "
        "(every member and component must equal model[index]); exploration bounded to <=12 ops, <=12 rows.",
        "Trusted: numpy indexing semantics. Ties in sortby accepted in any order (sortedness + permutation + row "
        "integrity asserted), out-of-range indices and the dtype of selected members are not judged. Not covered: groups "
        "whose members are 2-d (2-d values only appear as mis-shaped insertions), histories longer than the bound.",
        "DESIGN.md section 3 C06"),
    "C02": (
        "PBT against an independent unit engine (differential oracle on physical quantities in cgs) + exhaustive "
        "operator x operand-kind x dtype table (Hypothesis, shrinking, replay files)",
        "Every generated (operator, operands) case is recomputed in float64 cgs by a 100-line dimensional-analysis "
        "model that does not use pint; result must be the same physical quantity with the broadcast shape; "
        "incompatible + and - must raise and leave operands untouched. Exploration: |values| in {0} u 10^[-3,3] "
        "plus nan/inf, shapes <= 4x4, 40 unit spellings in 12 families.",
        "Trusted: the unit table of vlib/unitmodel.py (cross-checked against the live registry by C08). Tolerance "
        "64 eps of the coarsest float dtype involved / 1e-9 with unit factors. Reflected + and - are not generated.",
        "DESIGN.md section 3 C02"),
    "C07": (
        "PBT with values engineered around equality after conversion, verdict oracle from the independent unit "
        "engine; exhaustive truth tables for the logical operators",
        "Generated comparisons (six operators, five rhs kinds, four dtypes, broadcast shapes, same/compatible/"
        "incompatible units incl. scaled dimensionless units) are judged against numpy comparisons of cgs values; "
        "elements closer than the tolerance are not judged; incompatible dimensions must raise; logical operators "
        "are compared with numpy on generated shapes and complete truth tables. An exact sub-check compares neighbouring "
        "int64 values around 2**53..2**62 (same unit; also with a numpy object on the left of unscaled dimensionless data) "
        "against python integers.",
        "Trusted: vlib/unitmodel.py. Elements within 1e-9 (1e-5 with float32 operands) relative are not judged.",
        "DESIGN.md section 3 C07"),
    "C08": (
        "PBT (same-quantity, immutability, round-trip and chain metamorphic relations against the independent unit "
        "engine) + exhaustive enumeration of the unit catalogue and its spellings",
        "Generated Arrays/Vectors are converted within and across families; results are compared with the "
        "independent model, the source must be bit-identical afterwards, round trips and chains must agree, "
        "incompatible pairs must raise; complex values and numpy masked arrays go through to() as well (converted complex number, mask kept). The finite catalogue (9 osyris-defined constants x spellings, 45 generator "
        "units, every symbol of the independent table, spelling equivalence sets, two pre-existing user configurations in "
        "a fresh interpreter) is enumerated completely against accepted physical values (masses 1e-3, nominal radii "
        "and luminosities 1e-6, radiation constant 1e-4).",
        "Trusted: accepted values written into vlib/unitmodel.py (IAU 2015 / CODATA); within their latitude the model "
        "adopts the live value of an osyris-defined constant, outside it the frozen one.",
        "DESIGN.md section 3 C08"),
    "C09": (
        "differential PBT (Vector operation vs the same operation on each component Array) + independent numpy/cgs "
        "oracle and algebraic-law metamorphic relations for norm/dot/cross",
        "Generated Vector operations (arithmetic, comparisons, logical, unary, numpy functions, reflected forms; "
        "rhs Vector/Array/number/ndarray/Quantity; 1-3 components) must equal the component-wise lifting bit for "
        "bit (reflected forms: as physical quantities) or raise together with the same exception type; component-count "
        "mismatches must be rejected (operators and numpy functions). norm/dot/cross are recomputed with numpy on cgs values from the independent unit model and "
        "checked against symmetry, antisymmetry, a.(axb)=0 and the Lagrange identity with mixed compatible units.",
        "Trusted: component Array operations (decided by C02/C07/C10) as the lifting reference; vlib/unitmodel.py. "
        "Not covered: a Quantity, ndarray or numpy scalar on the left of a Vector.",
        "DESIGN.md section 3 C09"),
    "C10": (
        "catalogue-driven PBT: exhaustive function x unit-assignment x dtype table + generated values/shapes/"
        "keyword forms, oracle = numpy on raw values + unit class from the independent unit engine",
        "A fixed catalogue of ~100 numpy functions in three unit classes (plus ufunc methods reduce / accumulate / "
        "outer) is called on Arrays in positional, axis=, keepdims= and out= forms with same / compatible / "
        "incompatible / bare operands, ndarray or Array conditions, eight dtypes and non-finite values; values must equal numpy's "
        "on raw values (n-ary: as physical quantities), the unit must follow the class, mixed units must be "
        "converted or refused. A storage sub-check covers Arrays holding masked arrays (mask kept) and dtype= / integer out= "
        "keywords (unit kept).",
        "Trusted: the class assignment of the catalogue (taken from the property statement); numpy as value "
        "reference. Known finding (one root cause): non-transforming n-ary functions combine raw numbers of "
        "operands in different units.",
        "DESIGN.md section 3 C10"),
    "C17": (
        "model-based PBT over operation histories on an object graph; reference model with explicit aliasing "
        "(numpy buffers + index expressions, container membership by identity)",
        "Generated histories of in-place updates (four operators, six operand kinds, via name or via container), "
        "copy()/copy.copy/copy.deepcopy of Arrays, Vectors, Datagroups and Datasets, shallow container copies, "
        "slices and container insertions; after every step every tracked object and alias must equal the aliasing "
        "model (values, unit), np.shares_memory is asserted false for copies and true for slices, identity of "
        "in-place results and container members is asserted.",
        "Trusted: numpy view semantics as the aliasing reference; vlib/unitmodel.py. Bounded to <=12 steps, "
        "1-d members of 3-6 rows. Not covered: 2-d slices.",
        "DESIGN.md section 3 C17"),
    "C01": (
        "generator-as-model PBT: Hypothesis-generated AMR trees written to RAMSES files by an independent "
        "record-by-record writer; oracle = the model's leaf table (row multisets on the exact cell lattice)",
        "Each generated output (ndim 1-3, 1-9 CPUs, boundaries, poisoned ghost and boundary octs, header sizes, "
        "variable lists, unit scales over 60 decades, explicit or -1 output number with decoys) is loaded in full "
        "and compared with the model: key set after vector assembly, row multiset (no missing, duplicated or ghost "
        "row), geometry, level, cpu, every variable x unit factor, unit dimensions, derived mass and B_field, "
        "meta ncells/time. Bound keys are printed exactly or as RAMSES prints them (E23.15). Exploration bounded to trees of "
        "<=2500 cells and <=6 levels above levelmin, plus single refinement chains down to level 21 (3-D) / 25 (2-D).",
        "Trusted: the RAMSES record layout of DESIGN.md Appendix A as implemented by vlib/ramses_model.py "
        "(cross-validated by osyris' own loader reading it exactly) and RAMSES' unit conventions in var_factor().",
        "DESIGN.md section 3 C01"),
    "C04": (
        "model-based PBT (selection predicates evaluated with numpy on the model's leaf table) with a generator "
        "built to reach the pre-selection's case analysis; exhaustive + generated differential check of the "
        "Hilbert curve against a structurally validated reference",
        "Generated outputs with RAMSES father-cell ownership and adversarial bound keys are loaded with interval "
        "predicates placed around leaves (boxes smaller than the leaf they hit, edge-touching, all/some axes), "
        "value predicates and explicit cpu lists; the result must equal the model's filtered table in every "
        "column; the number of files opened is recorded to measure how often pre-selection restricted.",
        "Trusted: ownership rule (father-cell centre key at levelmax+1 bits), frozen 12-state table validated by "
        "bijection/adjacency/prefix checks, Appendix A layout. Bounded to <=9 CPUs, levelmax <= 8.",
        "DESIGN.md section 3 C04"),
    "C12": (
        "model-based PBT: level predicates on generated outputs, oracle = the model tree truncated at the highest "
        "accepted level + exact tiling-volume invariant",
        "Level predicates (<=, <, ==, band, >=) alone or ANDed with value/position predicates are applied to "
        "generated outputs; the rows must be exactly the cells of the truncated tree satisfying the predicates "
        "with their stored restriction values, meta lmax must equal the cap, and full-prefix predicates must "
        "tile the box volume exactly.",
        "Trusted: refined cells carry restriction values (the writer stores independent values in every cell).",
        "DESIGN.md section 3 C12"),
    "C13": (
        "model-based + differential PBT: full load vs model (nothing lost or renamed by the merge), selective "
        "loads vs the full load bit for bit; variable-name sets generated from an x/y/z-rich alphabet",
        "Generated outputs whose hydro/particle descriptors contain suffix/infix/prefix/no-underscore component "
        "families, partial families, z components in 2-D and scalars bearing a family's merged name are loaded "
        "in full and with group lists, group strings, {group: False} and per-group variable lists; every "
        "requested variable must be bit-identical to the full load, nothing excluded may appear, vectors exactly "
        "for families whose ndim components were loaded.",
        "Trusted: Appendix A layout; merged names asserted only where the loader documents them.",
        "DESIGN.md section 3 C13"),
    "C14": (
        "generator-as-model PBT for particle files (typed columns, header record sizes, per-CPU counts) and sink "
        "CSV files (both unit-line dialects), oracle = the generating model",
        "Generated particle descriptors mixing d/i/b columns with full-range values, zero-particle CPUs and "
        "arbitrary header record lengths, and sink files with 1-6 sinks / empty / missing in both unit dialects "
        "are loaded (optionally with sortby); every column must equal the model's concatenation x unit factor "
        "with rows aligned as tuples; sortby must sort the key and preserve the row multiset.",
        "Trusted: Appendix A particle layout; sink unit-line grammar as documented in osyris' reader.",
        "DESIGN.md section 3 C14"),
    "C15": (
        "model-based PBT over histories of load() calls; oracle = a fresh RamsesDataset executing only the "
        "current call (differential against fresh execution)",
        "Generated sequences of 2-6 load() calls (full, group subsets, variable lists, restricting position "
        "predicates, level caps, value predicates, cpu_list, sortby) on one dataset; after each call every "
        "produced group must be bit-identical to the fresh result, other groups unchanged, counts consistent; for position "
        "and value predicates the fresh result itself is compared with the writer's model (cell count), since state kept "
        "at module level would reach a reference computed in the same process.",
        "Trusted: the fresh-dataset result (decided by C01-C14). Bounded to 8 calls per history.",
        "DESIGN.md section 3 C15"),
    "C05": (
        "PBT with points constructed relative to a generated grid (decidable / tolerant / just-outside classes), "
        "oracle = float64 floor-binning on the grid rebuilt from the returned centres; schedule sub-check over "
        "numba thread counts, row permutations and repetitions against the exact oracle",
        "Generated point sets (N 0-3000, linear/log axes, explicit/automatic limits, NaN/inf, near-edge and "
        "just-outside points, 0-3 integer-valued layers with sum/mean at layer or call level) are histogrammed "
        "through the public API and the kernel; per-bin counts must lie between strict and loose expectations, "
        "bins untouched by edge points must match exactly (counts, sums, means, mask), totals are conserved. "
        "Large inputs (2e5-4e5 points, crowded bins) are run under 1-16 threads and must be exact every time.",
        "Trusted: numpy floor-binning in float64. Thread interleavings are sampled, not enumerated: a race that "
        "needs a specific interleaving could be missed (measured loss rates on the pinned tree were 1-40%).",
        "DESIGN.md section 3 C05, 2.7"),
    "C18": (
        "PBT over normal vectors spanning 120 decades of length and 300 decades of component ratio + exhaustive "
        "enumeration of axis strings + generated particle clouds; oracle = orthonormality/orientation predicates "
        "and an independent numpy angular momentum",
        "get_direction is called with generated normals (axis-aligned, z=0, x+y=0 exact and near, tiny and "
        "denormal components, int and float data, units), all 54 axis strings, user bases from random rotations "
        "with arbitrary lengths/units and 'top'/'side' clouds; (n,u,v) must be orthonormal to 1e-9, n parallel "
        "to the request, right-handed when only the normal is given, aligned with / containing L for top/side.",
        "Trusted: numpy linear algebra. Overall vector lengths bounded to 10^+-60 (squared length representable).",
        "DESIGN.md section 3 C18"),
    "C16": (
        "PBT with membership computed in cgs by the independent unit engine; exact-boundary class on integer data "
        "in one unit, tolerant class elsewhere; deep snapshot of the input for immutability",
        "Generated Datasets (mesh / particle / position-less groups of equal and different length, Arrays and "
        "Vectors, 0-200 rows) are cut with spheres and boxes whose origin and size come in independent length "
        "units; the result must contain exactly the groups with a member inside, each equal to the input group "
        "indexed by the oracle mask (all members, units, names, order), meta carried over, input untouched, no "
        "shared buffers.",
        "Trusted: vlib/unitmodel.py. Rows within 1e-9 of the boundary are judged only when all quantities are "
        "integers in one unit.",
        "DESIGN.md section 3 C16"),
    "C03": (
        "PBT over generated AMR tilings, origins, orientations, windows and resolutions; oracle = brute-force "
        "point location of every pixel's sample point with an epsilon band on faces; metamorphic re-runs under "
        "other thread counts and row permutations",
        "For each generated map every pixel's sample point (rebuilt from the returned coordinates) is located by "
        "brute force over all cells: strictly inside -> that cell's value, touching nothing -> masked, on a face -> "
        "any touching cell or masked; scalar layers, vector norms and 'vec' layers (projections on u, v and "
        "in-plane magnitude); the pixel grid must be the requested window; 1/16/3 threads and permuted rows must "
        "agree on decided pixels. Bounded to <=800 cells and <=24x24 pixels.",
        "Trusted: get_direction for letter/normal orientations (decided by C18); numpy brute force. Thread "
        "schedules are sampled, not enumerated.",
        "DESIGN.md section 3 C03, 2.6, 2.7"),
    "C11": (
        "PBT extending C03's generator with thickness, depth resolution and reductions; oracle = numpy's own "
        "reduction over the brute-force located column with NaN for missing samples",
        "Thick maps of generated 3-D meshes (slabs thinner than cells at ~40%, dz up to the domain, depth "
        "resolution explicit or default, eight reductions) are compared per pixel with numpy's reduction over "
        "the column of located samples, scaled by the depth step and the position unit for sum/nansum; mask must "
        "follow numpy's NaN semantics; the default depth resolution is inferred among the <=2 admissible values. A "
        "second sub-check maps a uniform field in a box without holes with 1-100 depth samples: column sum = dz, mean = 1.",
        "Trusted: numpy reductions and brute-force location. Columns with a face-ambiguous sample are not "
        "judged; 2-D meshes (no normal direction) are outside the domain; default depth bounded to 48 samples.",
        "DESIGN.md section 3 C11"),
    "C19": (
        "model-based PBT over histories of plotting calls sharing argument objects (deep snapshots + differential "
        "against the same call on fresh arguments) + exhaustive enumeration of the option lattice (each option at "
        "neither / layer / call / both levels, pairwise combinations)",
        "Generated sequences of map (thin/thick, plot on/off), histogram2d, histogram1d, scatter and plot calls "
        "share Layers, Arrays, a resolution dict, origin, window and limits; every argument must be bit-identical "
        "after each call and each result must equal that of the same call on pristine copies. The finite option "
        "lattice (6+6+2 options x 4 levels x 2 value orders + pairwise) is enumerated completely with observable "
        "effects (mode, norm class and limits, extra keywords, reduction data and unit, bins, weights, the colouring Array "
        "of vector layers, a ready-made norm object). A third sub-check repeats a histogram call on a shared axes object "
        "after other calls on it.",
        "Trusted: deep snapshot comparison; matplotlib only as a sink (Agg). Face-ambiguous sample points are "
        "avoided by construction in the shared mesh. Histories bounded to 5 calls.",
        "DESIGN.md section 3 C19"),
}

NOT_APPLICABLE = []


def all_properties():
    out = []
    with open(os.path.join(HERE, "properties.jsonl")) as f:
        for line in f:
            if line.strip():
                out.append(json.loads(line)["id"])
    return out


def main():
    checks = []
    for pid in sorted(CHECKS):
        tech, text, note, ref = CHECKS[pid]
        checks.append({
            "property_id": pid,
            "quick_cmd": f"{PY} run.py {pid} --tier quick",
            "thorough_cmd": f"{PY} run.py {pid} --tier thorough",
            "evidence_file": f"evidence/{pid}.json",
            "replay_cmd_template": f"{PY} run.py {pid} --replay {{path}}",
            "engine": "hypothesis-runner",
            "level_claimed": {"category": "exploration", "text": text, "design_ref": ref},
            "level_note": note,
            "technique": tech,
        })
    na = list(NOT_APPLICABLE)
    for pid in all_properties():
        if pid not in CHECKS and not any(x["property_id"] == pid for x in na):
            na.append({"property_id": pid, "reason": "check not built yet (work in progress; the technique applies, "
                                                     "see DESIGN.md section 3)"})
    manifest = {
        "version": 1,
        "setup_cmd": f"{PY} tools/setup.py",
        "hooks": {
            "guard": "OSYRIS_VERIF",
            "enable": "no source hooks are needed: every observable is reachable through the public API; "
                      "checks set OSYRIS_VERIF=1 and import osyris from /repo/src (working tree) with a fresh HOME",
            "baseline_off_cmd": "cd /repo && env -u OSYRIS_VERIF /venv/bin/python -m pytest -q -p no:cacheprovider test",
            "source_commits": [],
            "add_only": True,
        },
        "engines": [{
            "name": "hypothesis-runner", "path": "run.py",
            "serves_properties": sorted(CHECKS),
            "kind_free_text": "Hypothesis 6.168 strategies over plain-data cases, explicit oracles in checks/cNN.py, "
                              "16-process sharding in the thorough tier, shrunk failures written as JSON replay files",
        }],
        "checks": checks,
        "notes": "Checks import osyris from /repo/src (override: OSYRIS_SRC) in a fresh HOME. Exit 0 held / 1 violation "
                 "/ 2 harness error. known_findings.json lists recorded findings and fixed defects; regress/<ID>/ holds "
                 "shrunk inputs of every defect found, replayed first on every run.",
        "not_applicable": na,
    }
    with open(os.path.join(HERE, "MANIFEST.json"), "w") as f:
        json.dump(manifest, f, indent=1)
    print("wrote MANIFEST.json with", len(checks), "checks")


if __name__ == "__main__":
    main()
