#!/venv/bin/python
"""Regenerates /verif/MANIFEST.json from the table below (kept next to the checks so it stays current)."""
import json
import os

HERE = os.path.dirname(os.path.dirname(os.path.abspath(__file__)))
PY = "/venv/bin/python"

# property -> (technique, level text, level note, design ref)
CHECKS = {
    "C20": (
        "model-based PBT over operation histories (python dict as reference model) + generated Datagroup pairs "
        "against an independent content-equality oracle (Hypothesis, shrinking, replay files)",
        "Generated histories of dictionary operations on Datagroup and Dataset are compared step by step with a "
        "python dict; generated pairs of groups (identical / unit-converted / partly / wholly different / different "
        "keys) are compared with an independent element-wise oracle. Exploration of a universally quantified "
        "property: bounded histories (<=14 ops, 5 keys) and group sizes (<=6 rows, <=4 members).",
        "Trusted: python dict semantics as the reference; integer-valued data so that equality after unit "
        "conversion is exact. Not covered: histories longer than the bound; incompatible-unit members in ==.",
        "DESIGN.md section 3 C20"),
}

NOT_APPLICABLE = []


def all_properties():
    out = []
    with open(os.path.join(HERE, "properties.jsonl")) as f:
        for line in f:
            if line.strip():
                out.append(json.loads(line)["id"])
    return out


def main():
    checks = []
    for pid in sorted(CHECKS):
        tech, text, note, ref = CHECKS[pid]
        checks.append({
            "property_id": pid,
            "quick_cmd": f"{PY} run.py {pid} --tier quick",
            "thorough_cmd": f"{PY} run.py {pid} --tier thorough",
            "evidence_file": f"evidence/{pid}.json",
            "replay_cmd_template": f"{PY} run.py {pid} --replay {{path}}",
            "engine": "hypothesis-runner",
            "level_claimed": {"category": "exploration", "text": text, "design_ref": ref},
            "level_note": note,
            "technique": tech,
        })
    na = list(NOT_APPLICABLE)
    for pid in all_properties():
        if pid not in CHECKS and not any(x["property_id"] == pid for x in na):
            na.append({"property_id": pid, "reason": "check not built yet (work in progress; the technique applies, "
                                                     "see DESIGN.md section 3)"})
    manifest = {
        "version": 1,
        "setup_cmd": f"{PY} tools/setup.py",
        "hooks": {
            "guard": "OSYRIS_VERIF",
            "enable": "no source hooks are needed: every observable is reachable through the public API; "
                      "checks set OSYRIS_VERIF=1 and import osyris from /repo/src (working tree) with a fresh HOME",
            "baseline_off_cmd": "cd /repo && env -u OSYRIS_VERIF /venv/bin/python -m pytest -q -p no:cacheprovider test",
            "source_commits": [],
            "add_only": True,
        },
        "engines": [{
            "name": "hypothesis-runner", "path": "run.py",
            "serves_properties": sorted(CHECKS),
            "kind_free_text": "Hypothesis 6.168 strategies over plain-data cases, explicit oracles in checks/cNN.py, "
                              "16-process sharding in the thorough tier, shrunk failures written as JSON replay files",
        }],
        "checks": checks,
        "notes": "Checks import osyris from /repo/src (override: OSYRIS_SRC) in a fresh HOME. Exit 0 held / 1 violation "
                 "/ 2 harness error. known_findings.json lists recorded findings and fixed defects; regress/<ID>/ holds "
                 "shrunk inputs of every defect found, replayed first on every run.",
        "not_applicable": na,
    }
    with open(os.path.join(HERE, "MANIFEST.json"), "w") as f:
        json.dump(manifest, f, indent=1)
    print("wrote MANIFEST.json with", len(checks), "checks")


if __name__ == "__main__":
    main()
