#!/venv/bin/python
"""Confirm a seeded change and file it under /verif/seeded/<name>/.

usage: tools/verify_seed.py <src_dir with patch.diff demo.py notes.md> <property> <name> [--checks C06,C17]

In a scratch git worktree of /repo (under /tmp, removed afterwards):
  1. the patch applies;  2. the pinned test suite still passes (192);  3. the demo fails with the patch and
  passes on /repo/src;  4. the registered quick check(s) are run against the patched tree.
Writes seeded/<name>/{patch.diff,demo.py,notes.md,meta.json}.
"""
import argparse
import json
import os
import re
import shutil
import subprocess
import sys
import tempfile

HERE = os.path.dirname(os.path.dirname(os.path.abspath(__file__)))
PY = "/venv/bin/python"


def run(cmd, env=None, cwd=None, timeout=3600):
    e = dict(os.environ)
    e.update(env or {})
    p = subprocess.run(cmd, shell=isinstance(cmd, str), env=e, cwd=cwd, capture_output=True, text=True, timeout=timeout)
    return p.returncode, (p.stdout + p.stderr)


def main():
    ap = argparse.ArgumentParser()
    ap.add_argument("src")
    ap.add_argument("prop")
    ap.add_argument("name")
    ap.add_argument("--checks", default=None)
    ap.add_argument("--tier", default="quick")
    ap.add_argument("--needs", default="")
    args = ap.parse_args()
    checks = (args.checks or args.prop).split(",")
    src = os.path.abspath(args.src)
    wt = tempfile.mkdtemp(prefix="vseed_", dir="/tmp")
    os.rmdir(wt)
    meta = {"property": args.prop, "name": args.name, "ran": []}
    rc, out = run(["git", "-C", "/repo", "worktree", "add", "--detach", wt, "HEAD"])
    assert rc == 0, out
    try:
        rc, out = run(["git", "-C", wt, "apply", os.path.join(src, "patch.diff")])
        rebased = None
        if rc != 0:
            # written against an earlier HEAD: 3-way merge onto the current one and re-diff
            rc, out = run(["git", "-C", wt, "apply", "--3way", os.path.join(src, "patch.diff")])
            if rc == 0:
                run(["git", "-C", wt, "reset", "-q"])
                _, rebased = run(["git", "-C", wt, "diff"])
        meta["ran"].append({"cmd": "git apply patch.diff (scratch worktree of /repo HEAD)" +
                            (" [3-way rebased]" if rebased else ""), "rc": rc})
        if rc != 0:
            print("PATCH DOES NOT APPLY", out)
            return 1
        home = tempfile.mkdtemp(prefix="vseed_home_")
        rc, out = run([PY, "-m", "pytest", "-q", "-p", "no:cacheprovider", "test"], cwd=wt,
                      env={"HOME": home, "MPLBACKEND": "Agg", "PYTHONPATH": os.path.join(wt, "src")})
        m = re.search(r"(\d+) passed", out)
        npass = int(m.group(1)) if m else 0
        failed = "failed" in out.splitlines()[-1] if out.strip() else True
        meta["ran"].append({"cmd": "pytest test (patched)", "rc": rc, "passed": npass})
        shutil.rmtree(home, ignore_errors=True)
        print("tests with patch:", rc, npass)
        if rc != 0 or npass < 192 or failed:
            print("TESTS DO NOT PASS WITH PATCH", out[-500:])
            return 1
        demo = os.path.join(src, "demo.py")
        rc_p, out_p = run([PY, demo], env={"OSYRIS_SRC": os.path.join(wt, "src")})
        rc_c, out_c = run([PY, demo], env={"OSYRIS_SRC": "/repo/src"})
        meta["ran"].append({"cmd": "demo.py with patch", "rc": rc_p, "tail": out_p[-300:]})
        meta["ran"].append({"cmd": "demo.py on /repo/src", "rc": rc_c})
        print("demo patched rc", rc_p, "| clean rc", rc_c)
        if rc_p == 0 or rc_c != 0:
            print("DEMO DOES NOT DISCRIMINATE", out_p[-300:], out_c[-300:])
            return 1
        detected = {}
        for c in checks:
            rc, out = run([PY, os.path.join(HERE, "run.py"), c, "--tier", args.tier],
                          env={"OSYRIS_SRC": os.path.join(wt, "src"), "VERIF_EVIDENCE_DIR": wt + "_ev"})
            viol = [l for l in out.splitlines() if l.startswith("VIOLATION") or l.strip().startswith("sub=")]
            detected[c] = {"rc": rc, "lines": viol[:4]}
            print("check", c, "rc", rc, viol[:2])
        meta["checks_against_patched_tree"] = detected
        meta["detected_by"] = [c for c, d in detected.items() if d["rc"] == 1]
        meta["needs_to_manifest"] = args.needs
        dst = os.path.join(HERE, "seeded", args.name)
        os.makedirs(dst, exist_ok=True)
        for f in ("patch.diff", "demo.py", "notes.md"):
            shutil.copy(os.path.join(src, f), os.path.join(dst, f))
        if rebased:
            shutil.copy(os.path.join(src, "patch.diff"), os.path.join(dst, "patch.orig.diff"))
            with open(os.path.join(dst, "patch.diff"), "w") as f:
                f.write(rebased)
        if not meta["needs_to_manifest"]:
            with open(os.path.join(src, "notes.md")) as f:
                meta["needs_to_manifest"] = "see notes.md: " + f.read()[:600]
        with open(os.path.join(dst, "meta.json"), "w") as f:
            json.dump(meta, f, indent=1)
        print("kept as", dst, "detected_by", meta["detected_by"])
        return 0
    finally:
        run(["git", "-C", "/repo", "worktree", "remove", "--force", wt])
        shutil.rmtree(wt, ignore_errors=True)
        shutil.rmtree(wt + "_ev", ignore_errors=True)


if __name__ == "__main__":
    sys.exit(main())
