#!/venv/bin/python
"""Re-run the registered quick checks against every kept seeded change (scratch copy of /repo/src + patch),
update seeded/<name>/meta.json and print a summary.  usage: tools/rerun_seeds.py [name ...]"""
import glob
import json
import os
import shutil
import subprocess
import sys
import tempfile
from concurrent.futures import ThreadPoolExecutor

HERE = os.path.dirname(os.path.dirname(os.path.abspath(__file__)))
PY = "/venv/bin/python"


def one(d):
    name = os.path.basename(d)
    meta = json.load(open(os.path.join(d, "meta.json")))
    checks = sorted(set(meta.get("detected_by") or []) | {meta["property"]})
    tmp = tempfile.mkdtemp(prefix="reseed_", dir="/tmp")
    try:
        shutil.copytree("/repo/src", os.path.join(tmp, "src"), ignore=shutil.ignore_patterns("*.egg-info", "__pycache__"))
        p = subprocess.run(["git", "apply", "-p1", os.path.join(d, "patch.diff")], cwd=tmp, capture_output=True, text=True)
        if p.returncode != 0:
            return name, {"error": "patch does not apply: " + p.stderr[-200:]}
        res = {}
        for c in checks:
            e = dict(os.environ, OSYRIS_SRC=os.path.join(tmp, "src"), VERIF_EVIDENCE_DIR=os.path.join(tmp, "ev"))
            q = subprocess.run([PY, os.path.join(HERE, "run.py"), c], env=e, capture_output=True, text=True, timeout=3000)
            lines = [l for l in q.stdout.splitlines() if l.startswith("VIOLATION") or l.strip().startswith("sub=")]
            res[c] = {"rc": q.returncode, "lines": lines[:2]}
        return name, res
    finally:
        shutil.rmtree(tmp, ignore_errors=True)


def main():
    names = sys.argv[1:]
    dirs = sorted(glob.glob(os.path.join(HERE, "seeded", "*")))
    if names:
        dirs = [d for d in dirs if os.path.basename(d) in names]
    with ThreadPoolExecutor(max_workers=4) as ex:
        for name, res in ex.map(one, dirs):
            mp = os.path.join(HERE, "seeded", name, "meta.json")
            meta = json.load(open(mp))
            if "error" in res:
                print(name, "ERROR", res["error"])
                continue
            meta["checks_against_patched_tree"] = res
            meta["detected_by"] = sorted(c for c, v in res.items() if v["rc"] == 1)
            json.dump(meta, open(mp, "w"), indent=1)
            print(name, "detected by", meta["detected_by"], {c: v["rc"] for c, v in res.items()})


if __name__ == "__main__":
    main()
