#!/venv/bin/python
"""Regenerates the sensitivity table of DESIGN.md section 7 from seeded/*/meta.json."""
import glob
import json
import os
import re

HERE = os.path.dirname(os.path.dirname(os.path.abspath(__file__)))
rows, n_first_ok = [], 0
for d in sorted(glob.glob(os.path.join(HERE, "seeded", "*"))):
    m = json.load(open(os.path.join(d, "meta.json")))
    notes = open(os.path.join(d, "notes.md")).read().strip().split("\n")
    title = next((l.strip("# ").strip() for l in notes if l.strip()), "")
    title = re.sub(r"^(Seed(ed change)?\s*)?C\d\d\s*[-/:(]?\s*(seed(ed change)?\s*)?[AB]\)?\s*[-:—(]*\s*", "", title, flags=re.I)
    first = m.get("first_run", "")
    if first.startswith("detected by the registered check as it stood") or "as the checks stood when the change arrived" in first:
        n_first_ok += 1
    det = ', '.join(m.get('detected_by') or [])
    if m.get("detected_by_thorough"):
        det = (det + "; " if det else "") + "thorough tier: " + ', '.join(m["detected_by_thorough"])
    rows.append(f"| {os.path.basename(d)} | {title[:120]} | {det or '-'} | {first} |")
table = ("<!-- SEED-TABLE-BEGIN -->\n| Change | What it does (first line of the agent's notes) | Detected by (quick tier, now) | "
         "When the change arrived |\n|---|---|---|---|\n" + "\n".join(rows) + "\n<!-- SEED-TABLE-END -->")
p = os.path.join(HERE, "DESIGN.md")
s = open(p).read()
if "<!-- SEED-TABLE-BEGIN -->" in s:
    s = re.sub(r"<!-- SEED-TABLE-BEGIN -->.*?<!-- SEED-TABLE-END -->", lambda _: table, s, flags=re.S)
else:
    i = s.index("| Change | What it does (first line of the agent's notes)")
    j = s.index("\n\n", i)
    s = s[:i] + table + s[j:]
open(p, "w").write(s)
print(len(rows), "changes;", n_first_ok, "detected on arrival")
