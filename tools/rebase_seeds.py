#!/venv/bin/python
"""Re-express kept seeded changes whose patch no longer applies to /repo HEAD (after a fix: commit touched the same
lines): 3-way merge in a scratch worktree, re-diff, confirm (192 tests pass, the demonstration still discriminates),
keep the submitted form as patch.orig.diff.  Conflicts are reported for re-expression by hand.
usage: tools/rebase_seeds.py [names...]"""
import json
import os
import shutil
import subprocess
import sys
import tempfile

HERE = os.path.dirname(os.path.dirname(os.path.abspath(__file__)))
PY = "/venv/bin/python"


def run(cmd, env=None, cwd=None):
    e = dict(os.environ)
    e.update(env or {})
    p = subprocess.run(cmd, env=e, cwd=cwd, capture_output=True, text=True, timeout=3600)
    return p.returncode, p.stdout + p.stderr


def main():
    names = sys.argv[1:] or sorted(os.listdir(os.path.join(HERE, "seeded")))
    for name in names:
        d = os.path.join(HERE, "seeded", name)
        patch = os.path.join(d, "patch.diff")
        rc, _ = run(["git", "-C", "/repo", "apply", "--check", patch])
        if rc == 0:
            continue
        wt = tempfile.mkdtemp(prefix="rebase_", dir="/tmp")
        os.rmdir(wt)
        run(["git", "-C", "/repo", "worktree", "add", "--detach", wt, "HEAD"])
        try:
            src = os.path.join(d, "patch.orig.diff") if os.path.exists(os.path.join(d, "patch.orig.diff")) else patch
            rc, out = run(["git", "-C", wt, "apply", "--3way", src])
            if rc != 0:
                print(name, "CONFLICT:", out.strip().splitlines()[-1] if out.strip() else "")
                continue
            run(["git", "-C", wt, "reset", "-q"])
            _, newdiff = run(["git", "-C", wt, "diff"])
            home = tempfile.mkdtemp(prefix="rebase_home_")
            rc, out = run([PY, "-m", "pytest", "-q", "-p", "no:cacheprovider", "test"], cwd=wt,
                          env={"HOME": home, "MPLBACKEND": "Agg", "PYTHONPATH": os.path.join(wt, "src")})
            shutil.rmtree(home, ignore_errors=True)
            ok_tests = rc == 0 and "192 passed" in out
            rc_p, _ = run([PY, os.path.join(d, "demo.py")], env={"OSYRIS_SRC": os.path.join(wt, "src")})
            rc_c, _ = run([PY, os.path.join(d, "demo.py")], env={"OSYRIS_SRC": "/repo/src"})
            if not ok_tests or rc_p == 0 or rc_c != 0:
                print(name, f"REBASED BUT NOT CONFIRMED: tests_ok={ok_tests} demo patched rc={rc_p} clean rc={rc_c}")
                continue
            if not os.path.exists(os.path.join(d, "patch.orig.diff")):
                shutil.copy(patch, os.path.join(d, "patch.orig.diff"))
            with open(patch, "w") as f:
                f.write(newdiff)
            mp = os.path.join(d, "meta.json")
            meta = json.load(open(mp))
            head = run(["git", "-C", "/repo", "log", "--format=%h", "-1"])[1].strip()
            meta["rebased_onto"] = head
            json.dump(meta, open(mp, "w"), indent=1)
            print(name, "rebased onto", head)
        finally:
            run(["git", "-C", "/repo", "worktree", "remove", "--force", wt])
            shutil.rmtree(wt, ignore_errors=True)


if __name__ == "__main__":
    main()
