"""C06 - Datagroup members stay row-aligned under insertion, slicing and sorting (DESIGN.md C06)."""
import numpy as np
from hypothesis import strategies as st

from vlib import env
from vlib.harness import Sub

PROPERTY = "C06"
RULE = ("Hypothesis lists of operations (insert same-/wrong-shape Array or Vector, replace, update good/bad, del, pop, "
        "(also same row count but shape (n,2) / (n,1) / 0-d), same object under a second key, shallow bystander copy, clear+update on the empty group or the constructor with mixed items, index by int / negative int / stepped slice / bool mask (ndarray, Array) / integer array with repeats "
        "(ndarray, Array, list) / empty index, sortby(member), sortby(permutation)) executed on a Datagroup and on a "
        "numpy model {member -> component arrays, unit}; after every step all member shapes must be equal and every "
        "member/component must equal model[index]; a hidden unique row-id member gives the provenance of each row "
        "after sortby. non-trivial = history with >=1 Vector member and >=1 mask / integer-array / sort step; "
        "distinct = distinct canonical JSON of the op list.")
ASSUMPTIONS = [
    "numpy indexing semantics are the reference for every valid index object; out-of-range indices are not judged",
    "'rejected' means any exception; the dtype of selected members is not judged (the property promises values, units, names)",
    "sortby ties may be broken in any order: key column sorted + row multiset preserved + rows intact is asserted",
    "replacing the only member by one of another shape is left unspecified; scalar (0-d) groups are not continued",
    "index Arrays are dimensionless int32/int64/bool (what Array.__getitem__ documents)",
]
osyris = None
DTYPES = ["float64", "float32", "int64", "int32"]
UNITS = ["m", "cm", "g", "s", "km/s", "dimensionless", "M_sun"]
KEYS = ["a", "b", "c", "d", "pos", "vel"]


def prepare(ctx):
    global osyris
    osyris = env.import_osyris()


val_st = st.fixed_dictionaries({
    "kind": st.sampled_from(["A", "V", "V"]),
    "nvec": st.integers(1, 3),
    "dtype": st.sampled_from(DTYPES),
    "unit": st.sampled_from(UNITS),
    "seed": st.integers(0, 10 ** 6),
    "dn": st.sampled_from([0, 0, 0, 0, 1, -1, 2]),      # length offset: non-zero = wrong shape
    "ties": st.booleans(),
    # same number of rows but another shape: (n, 2), (n, 1), or a 0-d value
    "form": st.sampled_from(["1d", "1d", "1d", "1d", "1d", "1d", "nx2", "nx1", "0d"]),
})
key_st = st.sampled_from(KEYS)
idx_st = st.one_of(
    st.fixed_dictionaries({"t": st.just("int"), "i": st.integers(-40, 40), "oob": st.integers(0, 7).map(lambda x: x == 0)}),
    st.fixed_dictionaries({"t": st.just("slice"), "a": st.one_of(st.none(), st.integers(-12, 12)),
                           "b": st.one_of(st.none(), st.integers(-12, 12)),
                           "s": st.sampled_from([None, 1, 2, 3, -1, -2])}),
    st.fixed_dictionaries({"t": st.sampled_from(["mask_nd", "mask_arr", "mask_list", "mask_list"]),
                           "bits": st.lists(st.booleans(), min_size=40, max_size=40)}),
    st.fixed_dictionaries({"t": st.sampled_from(["ints_nd", "ints_arr", "ints_list", "ints_arr32"]),
                           "ii": st.lists(st.integers(-40, 40), min_size=0, max_size=12),
                           "oob": st.integers(0, 9).map(lambda x: x == 0)}),
    st.fixed_dictionaries({"t": st.sampled_from(["empty", "empty_list"])}),     # np.array([]) / a python list with no entries
    # one persistent mask object per history, rewritten in place before each use (ndarray or wrapped in one Array)
    st.fixed_dictionaries({"t": st.sampled_from(["mask_reuse_nd", "mask_reuse_arr"]),
                           "bits": st.lists(st.booleans(), min_size=40, max_size=40)}),
)
ints_idx_st = st.fixed_dictionaries({"t": st.sampled_from(["ints_nd", "ints_arr", "ints_list", "ints_arr32"]),
                                     "ii": st.lists(st.integers(-40, 40), min_size=2, max_size=12),
                                     "oob": st.just(False)})
reuse_idx_st = st.fixed_dictionaries({"t": st.sampled_from(["mask_reuse_nd", "mask_reuse_arr"]),
                                      "bits": st.lists(st.booleans(), min_size=40, max_size=40)})
op_st = st.one_of(
    st.fixed_dictionaries({"op": st.just("index"), "idx": reuse_idx_st, "adopt": st.just(False)}),
    st.fixed_dictionaries({"op": st.just("index"), "idx": ints_idx_st, "adopt": st.booleans()}),
    st.fixed_dictionaries({"op": st.just("index"), "idx": ints_idx_st, "adopt": st.booleans()}),
    st.fixed_dictionaries({"op": st.just("insert"), "key": key_st, "val": val_st}),
    st.fixed_dictionaries({"op": st.just("insert"), "key": key_st, "val": val_st}),
    st.fixed_dictionaries({"op": st.just("update"), "items": st.lists(st.tuples(key_st, val_st), min_size=1, max_size=3)
                          .map(lambda l: [list(x) for x in l]), "kw": st.booleans()}),
    st.fixed_dictionaries({"op": st.sampled_from(["del", "pop"]), "key": key_st}),
    st.fixed_dictionaries({"op": st.just("index"), "idx": idx_st, "adopt": st.booleans()}),
    st.fixed_dictionaries({"op": st.just("index"), "idx": idx_st, "adopt": st.booleans()}),
    st.fixed_dictionaries({"op": st.just("alias"), "which": st.integers(0, 10), "key": key_st}),
    st.fixed_dictionaries({"op": st.just("bystander")}),
    st.fixed_dictionaries({"op": st.just("clear_update"), "n": st.integers(1, 6), "kw": st.booleans(),
                           "how": st.sampled_from(["update", "ctor"]),
                           "items": st.lists(st.tuples(key_st, val_st), min_size=1, max_size=3)
                          .map(lambda l: [list(x) for x in l])}),
    st.fixed_dictionaries({"op": st.just("sortby_key"), "which": st.integers(0, 10)}),
    st.fixed_dictionaries({"op": st.just("sortby_perm"), "seed": st.integers(0, 10 ** 6),
                           "as": st.sampled_from(["list", "nd", "repeats", "arr", "arr", "arr_u32", "arr_i16"])}),
)
case_st = st.fixed_dictionaries({
    "n": st.integers(1, 12),
    "init": st.lists(st.tuples(key_st, val_st), min_size=1, max_size=3).map(lambda l: [list(x) for x in l]),
    "rid_first": st.booleans(),
    "ops": st.lists(op_st, min_size=1, max_size=12),
})


def _values(v, n, comp):
    rng = np.random.RandomState((v["seed"] * 7 + comp * 13) % (2 ** 31 - 1))
    hi = 4 if v["ties"] else 1000
    a = rng.randint(-hi, hi + 1, size=max(n, 0))
    return a.astype(np.dtype(v["dtype"]))


def _mk(v, n):
    """-> (osyris object, model {kind, unit, comps})"""
    nn = max(n + v["dn"], 0)
    ncomp = v["nvec"] if v["kind"] == "V" else 1
    comps = [_values(v, nn, c) for c in range(ncomp)]
    form = v.get("form", "1d")
    if form == "nx2":
        comps = [np.stack([c, c + 1], axis=1) for c in comps]
    elif form == "nx1":
        comps = [c.reshape(-1, 1) for c in comps]
    elif form == "0d":
        comps = [np.array(c[0] if len(c) else 0, dtype=c.dtype) for c in comps]
    if v["kind"] == "A":
        obj = osyris.Array(values=comps[0].copy(), unit=v["unit"])
    else:
        obj = osyris.Vector(*[osyris.Array(values=c.copy(), unit=v["unit"]) for c in comps])
    return obj, {"kind": v["kind"], "unit": v["unit"], "comps": comps}


def _comps_of(obj):
    if isinstance(obj, osyris.Vector):
        return [c.values for c in obj._xyz.values()]
    return [obj.values]


def _np_index(idx, n):
    t = idx["t"]
    if t == "int":
        # mapped into the valid range -n..n-1 unless the case asks for an out-of-range index
        return idx["i"] if (idx.get("oob") or n < 1) else ((idx["i"] + n) % (2 * n)) - n
    if t == "slice":
        return slice(idx["a"], idx["b"], idx["s"])
    if t in ("mask_nd", "mask_arr", "mask_list", "mask_reuse_nd", "mask_reuse_arr"):
        return np.array(idx["bits"][:n], dtype=bool)
    if t.startswith("ints"):
        ii = idx["ii"] if (idx.get("oob") or n < 1) else [((i + n) % (2 * n)) - n for i in idx["ii"]]
        return np.array(ii, dtype=np.int32 if t == "ints_arr32" else np.int64)
    return np.array([], dtype=np.int64)


_PERSISTENT = {}


def _osy_index(idx, n):
    t = idx["t"]
    ni = _np_index(idx, n)
    if t in ("mask_reuse_nd", "mask_reuse_arr"):
        st_ = _PERSISTENT.setdefault("mask", {})
        if st_.get("n") != n:
            st_.clear()
            st_["n"] = n
            st_["nd"] = np.zeros(n, dtype=bool)
            st_["arr"] = osyris.Array(values=np.zeros(n, dtype=bool))
        if t == "mask_reuse_nd":
            st_["nd"][:] = ni
            return st_["nd"]
        st_["arr"].values[...] = ni
        return st_["arr"]
    if t in ("mask_arr", "ints_arr", "ints_arr32"):
        return osyris.Array(values=ni)
    if t == "ints_list":
        return [int(i) for i in ni]
    if t == "mask_list":
        return [bool(b) for b in ni]          # a boolean mask given as a plain python list
    if t == "empty_list":
        return []                             # e.g. a list comprehension that matched nothing: selects no row
    return ni


def _check_group(dg, model, r, where, order_keys=True, names=True):
    """Every member has the same shape and equals the model."""
    try:
        keys = list(dg.keys())
        if order_keys and keys != list(model.keys()):
            r.bad(["keys"], f"{where}: keys {keys} != model {list(model.keys())}")
            return
        shapes = {k: dg[k].shape for k in keys}
        if len(set(shapes.values())) > 1:
            r.bad(["shapes-differ"], f"{where}: member shapes {shapes}")
            return
        for k in keys:
            obj, m = dg[k], model[k]
            if (m["kind"] == "V") != isinstance(obj, osyris.Vector):
                r.bad(["kind-changed"], f"{where}: member {k} kind changed")
                continue
            got = _comps_of(obj)
            if len(got) != len(m["comps"]):
                r.bad(["ncomp"], f"{where}: member {k} has {len(got)} components, model {len(m['comps'])}")
                continue
            for ci, (g, w) in enumerate(zip(got, m["comps"])):
                g = np.asarray(g)
                if g.shape != w.shape or not np.array_equal(g, w):
                    r.bad(["values-misaligned"], f"{where}: member {k} comp {ci}: got {g.tolist()} want {w.tolist()}")
                    break
            if obj.unit != osyris.units(m["unit"]):
                r.bad(["unit-lost"], f"{where}: member {k} unit {obj.unit} != {m['unit']}")
            if isinstance(obj, osyris.Vector):
                for cn, c in obj._xyz.items():
                    if c.unit != osyris.units(m["unit"]):
                        r.bad(["unit-lost", "component"], f"{where}: member {k} component {cn} unit {c.unit} != {m['unit']}")
                        break
            if names and not m.get("alias") and obj.name != k:
                r.bad(["name-lost"], f"{where}: member {k} has name {obj.name!r}")
    except Exception as e:
        r.bad(["observe-raises", type(e).__name__], f"{where}: {e!r}")


def _snapshot(model):
    return {k: {"kind": m["kind"], "unit": m["unit"], "comps": [c.copy() for c in m["comps"]],
                "alias": m.get("alias", False)} for k, m in model.items()}


def history(case, r):
    _PERSISTENT.clear()
    n = case["n"]
    dg = osyris.Datagroup()
    model = {}
    rid = np.arange(n, dtype=np.int64) * 3 + 5

    def add_rid():
        dg["_rid"] = osyris.Array(values=rid.copy())
        model["_rid"] = {"kind": "A", "unit": "dimensionless", "comps": [rid.copy()]}

    if case["rid_first"]:
        add_rid()
    for k, v in case["init"]:
        v = dict(v, dn=0, form="1d")
        obj, m = _mk(v, n)
        dg[k] = obj
        model[k] = m
    if not case["rid_first"]:
        add_rid()
    _check_group(dg, model, r, "after init")
    has_vector = any(m["kind"] == "V" for m in model.values())
    n_sel = 0
    bystanders = []   # (shallow copy of the group, snapshot of the model at that time)

    for i, op in enumerate(case["ops"]):
        where = f"step {i} {op['op']}"
        o = op["op"]
        cur_n = len(model["_rid"]["comps"][0]) if "_rid" in model else n
        if "_rid" in model and len(set(model["_rid"]["comps"][0].tolist())) < cur_n:
            # a selection with repeats duplicated rows: give every row a fresh unique id (a plain replacement of a member),
            # so that the provenance of rows stays decidable when members inserted later differ between the duplicates
            fresh = np.arange(cur_n, dtype=np.int64) * 3 + 5 + 1000 * (i + 1)
            try:
                dg["_rid"] = osyris.Array(values=fresh.copy())
            except Exception as e:
                r.bad(["good-insert-raises", type(e).__name__], f"{where} (fresh row ids): {e!r}")
                break
            model["_rid"] = {"kind": "A", "unit": "dimensionless", "comps": [fresh.copy()]}
        if o == "insert":
            obj, m = _mk(op["val"], cur_n)
            shape = tuple(m["comps"][0].shape)
            cur_shape = (cur_n,)
            if shape != cur_shape and len(shape) != 1:
                r.label("wrong_shape_same_rows" if (shape and shape[0] == cur_n) else "wrong_shape_0d")
            before = _snapshot(model)
            try:
                dg[op["key"]] = obj
                raised = None
            except Exception as e:
                raised = e
            if shape != cur_shape:
                r.label("wrong_shape_insert")
                if raised is None:
                    r.bad(["misshaped-accepted"], f"{where}: shape {shape} into group of shape {cur_shape}")
                    break
                model = before      # rejected (any exception): the group must be unchanged (checked below)
            else:
                if raised is not None:
                    r.bad(["good-insert-raises", type(raised).__name__], f"{where}: {raised!r}")
                    break
                model[op["key"]] = m
                has_vector |= m["kind"] == "V"
        elif o == "update":
            items = [(k, _mk(v, cur_n)) for k, v in op["items"]]
            d = {k: om[0] for k, om in items}
            dm = {k: om[1] for k, om in items}
            bad_keys = [k for k in d if tuple(dm[k]["comps"][0].shape) != (cur_n,)]
            before = _snapshot(model)
            try:
                if op["kw"]:
                    dg.update(**d)
                else:
                    dg.update(d)
                raised = None
            except Exception as e:
                raised = e
            if bad_keys:
                r.label("wrong_shape_insert")
                if raised is None:
                    r.bad(["update-misshaped-accepted"], f"{where}: keys {bad_keys}")
                    break
                # sequential prefix or atomic: adopt whichever the group shows, but demand consistency
                seq = dict(before)
                for k in d:
                    if k in bad_keys:
                        break
                    seq[k] = dm[k]
                if list(dg.keys()) == list(seq.keys()) and all(
                        np.array_equal(_comps_of(dg[k])[0], seq[k]["comps"][0]) for k in seq):
                    model = seq
                else:
                    model = before
            else:
                if raised is not None:
                    r.bad(["good-insert-raises", type(raised).__name__], f"{where}: {raised!r}")
                    break
                for k in d:
                    model[k] = dm[k]
                    has_vector |= dm[k]["kind"] == "V"
        elif o in ("del", "pop"):
            k = op["key"]
            if k in model and len(model) > 1:
                try:
                    if o == "del":
                        del dg[k]
                    else:
                        dg.pop(k)
                except Exception as e:
                    r.bad([f"{o}-raises", type(e).__name__], f"{where}: {e!r}")
                    break
                model.pop(k)
        elif o == "index":
            idx = op["idx"]
            ni = _np_index(idx, cur_n)
            # validity according to numpy on a length-cur_n axis
            try:
                probe = np.arange(cur_n)[ni]
                valid = True
            except IndexError:
                valid = False
            try:
                res = dg[_osy_index(idx, cur_n)]
                raised = None
            except Exception as e:
                raised = e
            if not valid:
                # out-of-range indices: numpy's business, not part of the property; nothing is adopted
                r.label("idx_out_of_range")
                continue
            r.label("idx_" + idx["t"])
            if idx["t"].startswith("ints"):
                if len(ni) >= 2:
                    r.label("idx_ints_valid_len2")
                if len(ni) and int(np.min(ni)) < 0:
                    r.label("idx_ints_negative")
                if len(set(np.asarray(ni).tolist())) < len(ni):
                    r.label("idx_ints_repeats")
            if idx["t"] == "int" and ni < 0:
                r.label("idx_negative_int")
            if raised is not None:
                r.bad(["index-raises", type(raised).__name__], f"{where}: index {idx} on length {cur_n}: {raised!r}")
                break
            if idx["t"] not in ("int", "slice", "empty", "empty_list"):
                n_sel += 1
            if idx["t"] == "empty_list":
                r.label("idx_empty_python_list")
            if idx["t"] == "mask_list":
                r.label("idx_mask_as_list")
            if idx["t"].startswith("mask_reuse"):
                r.label("mask_object_reused")
            want = {k: {"kind": m["kind"], "unit": m["unit"], "comps": [c[ni] for c in m["comps"]]}
                    for k, m in model.items()}
            if not isinstance(res, osyris.Datagroup):
                r.bad(["index-result-type"], f"{where}: {type(res).__name__}")
                break
            _check_group(res, want, r, f"{where} result (index {idx}, n={cur_n})")
            # the source group must be untouched
            _check_group(dg, model, r, f"{where} source")
            if r.records:
                break
            if op["adopt"] and idx["t"] != "int" and np.ndim(probe) == 1 and len(probe) >= 1:
                dg, model = res, want
            continue
        elif o == "alias":
            # the same object stored under a second key
            ks = [k for k in model if k != "_rid"]
            if not ks or op["key"] in ("_rid",):
                continue
            src = ks[op["which"] % len(ks)]
            if src == op["key"]:
                continue
            try:
                dg[op["key"]] = dg[src]
            except Exception as e:
                r.bad(["good-insert-raises", type(e).__name__], f"{where}: {e!r}")
                break
            # (the object is renamed to the last key it was stored under: names are not compared for aliases)
            model[op["key"]] = {"kind": model[src]["kind"], "unit": model[src]["unit"],
                                "comps": [c.copy() for c in model[src]["comps"]], "alias": True}
            model[src]["alias"] = True
            r.label("alias")
        elif o == "bystander":
            try:
                bystanders.append((dg.copy(), _snapshot(model)))
            except Exception as e:
                r.bad(["copy-raises", type(e).__name__], f"{where}: {e!r}")
                break
            r.label("bystander")
        elif o == "clear_update":
            items = [(k, _mk(v, op["n"])) for k, v in op["items"]]
            d = {k: om[0] for k, om in items}
            dm = {k: om[1] for k, om in items}
            lens = {tuple(m["comps"][0].shape) for m in dm.values()}
            if tuple(next(iter(dm.values()))["comps"][0].shape) == ():
                r.label("scalar_group_not_continued")      # the property is about non-scalar groups
                break
            how = op.get("how", "update")
            model = {}
            try:
                if how == "ctor":
                    # the constructor is an insertion path too
                    dg = osyris.Datagroup(**d) if op["kw"] else osyris.Datagroup(d)
                else:
                    dg.clear()
                    if op["kw"]:
                        dg.update(**d)
                    else:
                        dg.update(d)
                raised = None
            except Exception as e:
                raised = e
            if len(lens) > 1:
                r.label("wrong_shape_insert")
                r.label("update_on_empty_mixed" if how == "update" else "constructor_mixed")
                if raised is None:
                    r.bad(["update-misshaped-accepted", "empty-group" if how == "update" else "constructor"],
                          f"{where}: items of shapes {sorted(lens)} all accepted by {how} on an empty group")
                    break
                if how == "ctor":
                    break               # no group was constructed
            elif raised is not None:
                r.bad(["good-insert-raises", type(raised).__name__], f"{where}: {raised!r}")
                break
            try:
                model = {k: dm[k] for k in dg.keys()}
                shp = dg.shape
            except Exception as e:
                r.bad(["observe-raises", type(e).__name__], f"{where}: {e!r}")
                break
            if len(model) == 0 or len(shp) != 1:
                break                   # empty, scalar or 2-d group: the row-id model below does not apply
            nn = shp[0] if shp else 0
            rid = np.arange(nn, dtype=np.int64) * 3 + 5
            try:
                dg["_rid"] = osyris.Array(values=rid.copy())
            except Exception as e:
                r.bad(["good-insert-raises", type(e).__name__], f"{where} (row ids of length {nn}): {e!r}")
                break
            model["_rid"] = {"kind": "A", "unit": "dimensionless", "comps": [rid.copy()]}
            has_vector |= any(m["kind"] == "V" for m in model.values())
        elif o == "sortby_key":
            cands = [k for k, m in model.items() if m["kind"] == "A"]
            if not cands:
                continue
            k = cands[op["which"] % len(cands)]
            before = _snapshot(model)
            try:
                dg.sortby(k)
            except Exception as e:
                r.bad(["sortby-raises", type(e).__name__], f"{where} by {k}: {e!r}")
                break
            n_sel += 1
            r.label("sortby_key")
            try:
                got_rid = np.asarray(dg["_rid"].values)
            except Exception as e:
                r.bad(["observe-raises", type(e).__name__], f"{where}: {e!r}")
                break
            old_rid = before["_rid"]["comps"][0]
            if got_rid.shape != old_rid.shape or sorted(got_rid.tolist()) != sorted(old_rid.tolist()):
                r.bad(["sort-not-permutation"], f"{where} by {k}: row ids {got_rid.tolist()} from {old_rid.tolist()}")
                break
            pos = {v: j for j, v in enumerate(old_rid.tolist())}
            perm = np.array([pos[v] for v in got_rid.tolist()], dtype=np.int64)
            model = {kk: {"kind": m["kind"], "unit": m["unit"], "comps": [c[perm] for c in m["comps"]],
                          "alias": m.get("alias", False)}
                     for kk, m in before.items()}
            keycol = model[k]["comps"][0]
            if np.any(keycol[1:] < keycol[:-1]):
                r.bad(["sort-key-not-sorted"], f"{where} by {k}: key column {keycol.tolist()}")
                break
        elif o == "sortby_perm":
            rng_p = np.random.RandomState(op["seed"])
            perm = rng_p.permutation(cur_n)
            if op["as"] == "repeats" and cur_n >= 1:
                # an index list of the same length with repeated and negative entries
                perm = rng_p.randint(-cur_n, cur_n, size=cur_n)
                r.label("sortby_index_repeats")
            key = perm if op["as"] == "nd" else perm.tolist()
            if op["as"] == "arr":
                key = osyris.Array(values=perm)       # an index list held in an Array (what np.argsort(member) returns)
                r.label("sortby_index_Array")
            odd = op["as"] in ("arr_u32", "arr_i16")
            if odd:
                # an index Array of an integer type that osyris may refuse: either it sorts every member, or it raises and
                # leaves the group as it was
                key = osyris.Array(values=perm.astype(np.uint32 if op["as"] == "arr_u32" else np.int16))
                r.label("sortby_index_Array_of_another_integer_type")
            try:
                dg.sortby(key)
            except Exception as e:
                if odd:
                    _check_group(dg, model, r, f"after refused {where} ({type(e).__name__})")
                    if r.records:
                        r.records[-1]["signature"] = ["sortby-refused-but-group-changed"] + list(r.records[-1]["signature"])
                        break
                    continue
                r.bad(["sortby-raises", type(e).__name__], f"{where} perm {perm.tolist()}: {e!r}")
                break
            n_sel += 1
            r.label("sortby_perm")
            model = {kk: {"kind": m["kind"], "unit": m["unit"], "comps": [c[perm] for c in m["comps"]],
                          "alias": m.get("alias", False)}
                     for kk, m in model.items()}
        _check_group(dg, model, r, f"after {where}")
        for bi, (bdg, bmodel) in enumerate(bystanders):
            _check_group(bdg, bmodel, r, f"bystander copy {bi} after {where}", names=False)
        if r.records:
            break
    if has_vector:
        r.label("has_vector")
    if n_sel:
        r.label("has_selection")
    r.nontrivial(has_vector and n_sel >= 1)


def subs(ctx):
    return [Sub("history", history, strategy=case_st, quick=500, thorough=4000,
                required={"has_vector": 0.3, "has_selection": 0.3, "wrong_shape_insert": 0.1, "sortby_key": 0.1,
                          "idx_ints_valid_len2": 0.2, "idx_ints_negative": 0.15, "idx_ints_repeats": 0.1,
                          "idx_mask_as_list": 0.05, "sortby_index_Array": 0.05,
                          "wrong_shape_same_rows": 0.08, "constructor_mixed": 0.03})]
