"""C18 - Every accepted map orientation yields an orthonormal, correctly oriented basis (DESIGN.md C18)."""
import contextlib
import io
import itertools
import math

import numpy as np
from hypothesis import strategies as st

from vlib import env
from vlib import unitmodel as um
from vlib.harness import Sub

PROPERTY = "C18"
RULE = ("normals: largest component 10^[-300,300] with sign, the other components in {0, +-same, +-(1+-1e-12) same, "
        "relative 10^[-300,0]} (axis-aligned, z = 0, x+y = 0 exact and near, tiny and denormal components), python float / "
        "int (to 9e18) or numpy float32 / int32 / uint8 components, 0-d or shape (1,), optional length unit; axis letters and all 6 triples in every upper/lower-case combination "
        "(exhaustive); user VectorBasis built from mutually perpendicular vectors of arbitrary lengths and units; "
        "'top'/'side' with generated clouds of 5-40 cells (float64 or float32 positions, velocities, masses; origin in the "
        "position unit, another length unit, or omitted; window in another unit or omitted) with net angular momentum >= 1e-3 of sum m|r||v|.  Oracle on (n,u,v) = get_direction(...): unit length "
        "and mutual perpendicularity within 1e-9, n parallel to the requested normal with positive orientation, "
        "u x v = n when only the normal is given, named axes in order for letters/triples, n parallel to L = sum m "
        "(r-o) x v over |r-o| < (dx+dy)/4 (numpy, cgs) for 'top', L in span(u,v) for 'side'.  non-trivial = not "
        "axis-aligned, or a component <= 1e-10 relative, or z = 0, or x+y = 0.")
ASSUMPTIONS = [
    "overall lengths 10^+-300 (half of the cases within 10^+-60); ratios between components are not limited; numpy float32 / "
    "int32 / uint8 scalars only where the numbers are representable in that type",
    "without a window the selection sphere of 'top'/'side' has half the mean extent of the positions as its radius (the "
    "anchored mechanism in direction.py); cells within 5% of it are not generated",
    "a user VectorBasis is normalised but not orthogonalised by osyris: generated with perpendicular vectors",
    "cells within 10% of the selection sphere's radius are not generated (boundary membership is not judged)",
]
osyris = None
get_direction = None


def prepare(ctx):
    global osyris, get_direction
    osyris = env.import_osyris()
    from osyris.plot.direction import get_direction as gd
    get_direction = gd


comp_kind = st.sampled_from(["zero", "same", "-same", "near+", "near-", "rel", "-rel", "rel"])


@st.composite
def normal_st(draw):
    big = draw(st.integers(0, 2))
    e = draw(st.one_of(st.floats(-60, 60), st.floats(-300, 300)))
    mant = draw(st.floats(1.0, 9.99))
    s = mant * 10.0 ** e * draw(st.sampled_from([1.0, -1.0]))
    comps = [0.0, 0.0, 0.0]
    comps[big] = s
    for i in range(3):
        if i == big:
            continue
        k = draw(comp_kind)
        if k == "zero":
            comps[i] = 0.0
        elif k == "same":
            comps[i] = s
        elif k == "-same":
            comps[i] = -s
        elif k == "near+":
            comps[i] = s * (1 + 1e-12)
        elif k == "near-":
            comps[i] = -s * (1 - 1e-12)
        else:
            rel = 10.0 ** draw(st.floats(-300, 0))
            comps[i] = s * rel * (-1.0 if k == "-rel" else 1.0)
    # the storage type of the components: python float/int, or numpy scalars of a narrower type when representable
    dt = draw(st.sampled_from(["f8", "f8", "int", "int", "f4", "i4", "u1"]))
    amax = abs(s)
    if dt == "int" and not (all(abs(c) >= 1 or c == 0 for c in comps) and amax < 9e18):
        dt = "f8"
    if dt == "i4" and not (all(abs(c) >= 1 or c == 0 for c in comps) and amax < 2.1e9):
        dt = "f8"
    if dt == "u1":
        comps = [float(int(abs(c) / amax * 200.0)) for c in comps]     # 0..200, the largest is 200
    if dt == "f4" and not (1e-30 < amax < 1e38):
        dt = "f8"
    if dt in ("int", "i4", "u1"):
        comps = [int(c) for c in comps]
    return {"comps": comps, "dtype": dt, "shape1": draw(st.integers(0, 9)) == 0,
            "unit": draw(st.sampled_from([None, None, "cm", "au", "km/s"]))}


_NP = {"f4": np.float32, "i4": np.int32, "u1": np.uint8}


def _typed(case):
    """-> (components as handed to osyris, the same as float64 numbers)"""
    dt = case.get("dtype", "f8")
    comps = list(case["comps"])
    if dt in _NP:
        comps = [_NP[dt](c) for c in comps]
    vals = [float(c) for c in comps]
    if case.get("shape1"):
        comps = [np.array([c]) for c in comps]
    return comps, vals


def _vec(comps, unit=None):
    return osyris.Vector(comps[0], comps[1], comps[2], unit=unit)


def _xyz(v):
    return np.array([float(np.asarray(c.values).reshape(-1)[0]) for c in (v.x, v.y, v.z)], dtype=np.float64)


def _check_orthonormal(r, n, u, v, tag, tol=1e-9):
    ok = True
    for name, w in (("n", n), ("u", u), ("v", v)):
        if not np.all(np.isfinite(w)):
            r.bad([tag, "non-finite-basis"], f"{name} = {w.tolist()}")
            return False
        L = np.linalg.norm(w)
        if abs(L - 1) > tol:
            kind = "zero-vector" if L == 0 else "not-unit-length"
            r.bad([tag, kind], f"|{name}| = {L!r}; n={n.tolist()} u={u.tolist()} v={v.tolist()}")
            return False
    for (a, wa), (b, wb) in itertools.combinations((("n", n), ("u", u), ("v", v)), 2):
        d = float(np.dot(wa, wb))
        if abs(d) > tol:
            r.bad([tag, "not-perpendicular"], f"{a}.{b} = {d!r}; n={n.tolist()} u={u.tolist()} v={v.tolist()}")
            return False
    return ok


def _basis(direction, **kw):
    with contextlib.redirect_stdout(io.StringIO()):
        b = get_direction(direction, **kw)
    return _xyz(b.n), _xyz(b.u), _xyz(b.v)


def normal(case, r):
    given, c = _typed(case)
    dt = case.get("dtype", "f8")
    tol = 2e-5 if dt == "f4" else 1e-9          # float32 data give a float32 basis
    nz = [x for x in c if x != 0]
    big = max(abs(x) for x in c)
    r.nontrivial(len(nz) > 1 or False)
    r.label("dtype_" + dt)
    if case.get("shape1"):
        r.label("shape_1")
    if big >= 1e100 or big <= 1e-100 or (dt in ("int", "i4") and big * big >= 2.0 ** 31):
        r.label("square_not_representable")
    if len(nz) > 1:
        r.label("not_axis_aligned")
    if c[2] == 0:
        r.label("z_zero")
        r.nontrivial()
    if c[0] + c[1] == 0:
        r.label("x_plus_y_zero")
        r.nontrivial()
    if any(0 < abs(x) <= 1e-10 * big for x in c):
        r.label("tiny_component")
        r.nontrivial()
    if 0 < abs(c[2]) <= 1e-150 * max(abs(c[0] + c[1]), 1e-300):
        r.label("slope_overflow_region")
    try:
        with np.errstate(all="ignore"):
            n, u, v = _basis(_vec(given, case["unit"]))
    except Exception as e:
        r.bad(["normal", "raises", type(e).__name__, "dtype=" + dt], f"{e!r}; normal={c} dtype={dt} shape1={case.get('shape1')}")
        return
    if not _check_orthonormal(r, n, u, v, "normal", tol):
        return
    want = np.array([float(x) for x in c])
    want = want / big
    want = want / np.linalg.norm(want)
    if np.linalg.norm(np.cross(n, want)) > tol or np.dot(n, want) < 0:
        r.bad(["normal", "n-not-parallel"], f"n={n.tolist()} requested {want.tolist()}")
        return
    if np.linalg.norm(np.cross(u, v) - n) > tol:
        r.bad(["normal", "handedness"], f"u x v = {np.cross(u, v).tolist()} n = {n.tolist()}")


def _letter_cases():
    out = []
    for L in "xyz":
        for s in {L, L.upper()}:
            out.append({"t": "letter", "s": s})
    for perm in itertools.permutations("xyz"):
        for mask in range(8):
            s = "".join(ch.upper() if mask >> i & 1 else ch for i, ch in enumerate(perm))
            out.append({"t": "triple", "s": s})
    return out


AX = {"x": np.array([1.0, 0, 0]), "y": np.array([0, 1.0, 0]), "z": np.array([0, 0, 1.0])}


def letters(case, r):
    s = case["s"]
    r.nontrivial(case["t"] == "triple")
    try:
        n, u, v = _basis(s)
    except Exception as e:
        r.bad(["letters", "raises", type(e).__name__], f"direction {s!r}: {e!r}")
        return
    if not _check_orthonormal(r, n, u, v, "letters"):
        return
    low = s.lower()
    if np.linalg.norm(n - AX[low[0]]) > 1e-12:
        r.bad(["letters", "wrong-normal"], f"direction {s!r}: n = {n.tolist()}")
        return
    if case["t"] == "triple":
        if np.linalg.norm(u - AX[low[1]]) > 1e-12 or np.linalg.norm(v - AX[low[2]]) > 1e-12:
            r.bad(["letters", "wrong-axes-order"], f"direction {s!r}: u={u.tolist()} v={v.tolist()}")
    else:
        if np.linalg.norm(np.cross(u, v) - n) > 1e-12:
            r.bad(["letters", "handedness"], f"direction {s!r}: u x v != n")


@st.composite
def basis_st(draw):
    # random rotation from three angles, then arbitrary lengths / units per vector
    a, b, c = (draw(st.floats(0, 2 * math.pi)) for _ in range(3))
    lens = [10.0 ** draw(st.floats(-30, 30)) for _ in range(3)]
    return {"angles": [a, b, c], "lens": lens, "units": [draw(st.sampled_from([None, "cm", "pc"])) for _ in range(3)],
            "give_v": draw(st.booleans())}


def _rot(a, b, c):
    ca, sa, cb, sb, cc, sc = math.cos(a), math.sin(a), math.cos(b), math.sin(b), math.cos(c), math.sin(c)
    rz = np.array([[ca, -sa, 0], [sa, ca, 0], [0, 0, 1]])
    ry = np.array([[cb, 0, sb], [0, 1, 0], [-sb, 0, cb]])
    rx = np.array([[1, 0, 0], [0, cc, -sc], [0, sc, cc]])
    return rz @ ry @ rx


def user_basis(case, r):
    R = _rot(*case["angles"])
    r.nontrivial()
    vecs = [R[:, i] * case["lens"][i] for i in range(3)]
    n_in, u_in, v_in = (_vec(vecs[i].tolist(), case["units"][i]) for i in range(3))
    try:
        vb = osyris.VectorBasis(n=n_in, u=u_in, v=v_in if case["give_v"] else None) if case["give_v"] or \
            case["units"][0] == case["units"][1] else osyris.VectorBasis(n=n_in, u=u_in, v=v_in)
        n, u, v = _basis(vb)
    except Exception as e:
        r.bad(["user-basis", "raises", type(e).__name__], f"{e!r}")
        return
    if not _check_orthonormal(r, n, u, v, "user-basis"):
        return
    for name, got, col in (("n", n, 0), ("u", u, 1)):
        if np.linalg.norm(got - R[:, col]) > 1e-9:
            r.bad(["user-basis", f"{name}-changed"], f"{name} = {got.tolist()}, given direction {R[:, col].tolist()}")
            return
    if np.linalg.norm(v - R[:, 2]) > 1e-9:
        r.bad(["user-basis", "v-wrong"], f"v = {v.tolist()}, expected {R[:, 2].tolist()} (= n x u)")


@st.composite
def cloud_st(draw):
    n = draw(st.integers(5, 40))
    return {"view": draw(st.sampled_from(["top", "side"])), "spell": draw(st.sampled_from(["lower", "lower", "upper", "title", "mixed"])),
            "n": n, "seed": draw(st.integers(0, 2 ** 31 - 2)),
            "pos_unit": draw(st.sampled_from(["cm", "au", "pc"])), "vel_unit": draw(st.sampled_from(["cm/s", "km/s"])),
            "mass_unit": draw(st.sampled_from(["g", "M_sun"])), "win_unit": draw(st.sampled_from(["cm", "au", "pc"])),
            "axis": [draw(st.floats(-1, 1)) for _ in range(3)], "noise": draw(st.sampled_from([0.0, 0.1, 0.5])),
            "origin": [draw(st.floats(-1, 1)) for _ in range(3)], "ratio": draw(st.sampled_from([1.0, 1.0, 0.5, 2.0])),
            "window": draw(st.sampled_from([True, True, False])),
            "origin_form": draw(st.sampled_from(["pos_unit", "pos_unit", "other_unit", "none"])),
            "origin_unit": draw(st.sampled_from(["cm", "au", "pc", "km"])),
            "dtype": draw(st.sampled_from(["f8", "f8", "f4"]))}


def views(case, r):
    rng = np.random.RandomState(case["seed"])
    n = case["n"]
    axis = np.array(case["axis"])
    if np.linalg.norm(axis) < 1e-3:
        axis = np.array([0.3, -0.2, 0.9])
    axis = axis / np.linalg.norm(axis)
    R = 1.0                                    # selection radius in "pos units"
    # radii away from the sphere boundary
    rad = np.where(rng.random_sample(n) < 0.7, rng.uniform(0.05, 0.9, n), rng.uniform(1.1, 2.0, n)) * R
    d = rng.normal(size=(n, 3))
    d /= np.linalg.norm(d, axis=1)[:, None]
    rel = d * rad[:, None]
    vel = np.cross(axis, rel) * rng.uniform(0.5, 2.0, n)[:, None] + case["noise"] * rng.normal(size=(n, 3))
    mass = rng.uniform(0.5, 2.0, n)
    oform = case.get("origin_form", "pos_unit")
    origin = np.zeros(3) if oform == "none" else np.array(case["origin"])
    pos = rel + origin
    f4 = case.get("dtype", "f8") == "f4"
    if f4:
        # the numbers osyris sees are the float32 roundings; the reference works on exactly those
        pos, vel, mass = (a.astype(np.float32).astype(np.float64) for a in (pos, vel, mass))
        origin = origin.astype(np.float32).astype(np.float64)
        rel = pos - origin
        rad = np.linalg.norm(rel, axis=1)
    window = case.get("window", True)
    if not window:
        # no window given: the selection sphere has half the mean extent of the positions as its radius
        R = 0.5 * float(np.sum(pos.max(axis=0) - pos.min(axis=0))) / 3.0
        if np.any(np.abs(rad - R) < 0.05 * R):
            r.label("skipped_cell_near_sphere")
            return
    inside = rad < R
    L = np.sum(mass[inside, None] * np.cross(rel[inside], vel[inside]), axis=0)
    scale = np.sum(mass[inside] * np.linalg.norm(rel[inside], axis=1) * np.linalg.norm(vel[inside], axis=1))
    if inside.sum() < 2 or np.linalg.norm(L) < (0.05 if f4 else 1e-3) * scale:
        r.label("skipped_small_angular_momentum")
        return
    r.nontrivial()
    r.label("view_" + case["view"], "window_given" if window else "window_omitted", "origin_" + oform,
            "cloud_" + case.get("dtype", "f8"))
    pu, vu, mu, wu = case["pos_unit"], case["vel_unit"], case["mass_unit"], case["win_unit"]
    dt = np.float32 if f4 else np.float64
    data = {"position": osyris.Vector(*[osyris.Array(values=pos[:, i].astype(dt), unit=pu) for i in range(3)]),
            "velocity": osyris.Vector(*[osyris.Array(values=vel[:, i].astype(dt), unit=vu) for i in range(3)]),
            "mass": osyris.Array(values=mass.astype(dt), unit=mu)}
    kw = {}
    if window:
        # window: 0.25 (dx+dy) = R in position units
        fpos, fwin = um.parse(pu)[0], um.parse(wu)[0]
        total = 4.0 * R * fpos / fwin
        dx = total / (1 + case["ratio"])
        dy = total - dx
        kw["dx"] = dx * osyris.units(wu)
        kw["dy"] = dy * osyris.units(wu)
    if oform == "pos_unit":
        kw["origin"] = osyris.Vector(*[osyris.Array(values=dt(origin[i]), unit=pu) for i in range(3)])
    elif oform == "other_unit":
        ou = case["origin_unit"]
        f = um.parse(pu)[0] / um.parse(ou)[0]
        kw["origin"] = osyris.Vector(*[osyris.Array(values=origin[i] * f, unit=ou) for i in range(3)])
    tol = 2e-4 if f4 else 1e-7
    try:
        word = case["view"]
        word = {"lower": word, "upper": word.upper(), "title": word.title(),
                "mixed": "".join(ch.upper() if i % 2 else ch for i, ch in enumerate(word))}[case.get("spell", "lower")]
        with np.errstate(all="ignore"):
            nb, ub, vb = _basis(word, data=data, **kw)
    except Exception as e:
        r.bad(["views", "raises", case["view"], type(e).__name__, "cloud=" + case.get("dtype", "f8")],
              f"{e!r}; window={window} origin={oform}")
        return
    if not _check_orthonormal(r, nb, ub, vb, "views", 2e-5 if f4 else 1e-9):
        return
    Lh = L / np.linalg.norm(L)
    if case["view"] == "top":
        if np.linalg.norm(np.cross(nb, Lh)) > tol or np.dot(nb, Lh) < 0:
            r.bad(["views", "top-not-along-L"], f"n = {nb.tolist()}, L/|L| = {Lh.tolist()} ({int(inside.sum())} of {n} cells inside; "
                  f"window={window} origin={oform})")
    else:
        if abs(np.dot(nb, Lh)) > tol:
            r.bad(["views", "side-L-not-in-plane"], f"n.L = {np.dot(nb, Lh)!r}")
            return
        inplane = np.dot(Lh, ub) * ub + np.dot(Lh, vb) * vb
        if np.linalg.norm(inplane - Lh) > tol:
            r.bad(["views", "side-L-not-in-span"], f"L = {Lh.tolist()} projected {inplane.tolist()}")


def subs(ctx):
    return [
        Sub("letters", letters, cases=_letter_cases()),
        Sub("normal", normal, strategy=normal_st(), quick=3000, thorough=30000,
            required={"z_zero": 0.1, "x_plus_y_zero": 0.03, "tiny_component": 0.2, "slope_overflow_region": 0.05,
                      "square_not_representable": 0.15, "dtype_f4": 0.03, "dtype_i4": 0.02, "dtype_int": 0.05, "shape_1": 0.05}),
        Sub("user_basis", user_basis, strategy=basis_st(), quick=400, thorough=3000),
        Sub("views", views, strategy=cloud_st(), quick=400, thorough=3000, required={"view_top": 0.25, "view_side": 0.25, "window_omitted": 0.1, "origin_other_unit": 0.1,
                      "origin_none": 0.1, "cloud_f4": 0.1}),
    ]
