"""C19 - Plot calls do not modify their inputs; per-layer options override call options (DESIGN.md C19)."""
import contextlib
import copy
import io
import warnings

import numpy as np
from hypothesis import strategies as st

from vlib import env
from vlib import meshes
from vlib.harness import Sub

PROPERTY = "C19"
RULE = ("history: Hypothesis lists of 2-5 calls among map (thin and thick, plot=False and at 15% plot=True), histogram2d, "
        "histogram1d, scatter and plot that share argument objects (a mesh Datagroup, Layers with option dictionaries, "
        "Arrays, Array-valued layer keywords (scatter sizes and colours, vector colours), a resolution dict with any subset of "
        "x/y/z keys or none, origin, window sizes dx/dy/dz as Quantities in other units, direction as letter / Vector / "
        "unit-length Vector / VectorBasis / 'top', limits, the dict form of plot), other arguments varying between calls; "
        "after the last call the first call is repeated on the same objects and must return what it returned first.  Oracle: deep snapshots (array bytes, units, names, Layer fields, kwargs dicts, dict contents) "
        "of every argument before and after each call must be equal, and each call's returned data (x, y, layer data "
        "and mask, unit, mode, norm parameters) must equal the same call made with freshly deep-copied pristine "
        "arguments.  lattice: each of mode, norm, vmin, vmax, operation, bins, weights and one extra keyword (cmap) set "
        "at neither / layer / call / both levels with different values on a two-layer call (first layer carries the "
        "layer-level setting, second leaves it unset) for map, histogram2d and histogram1d; effective option = the "
        "layer's value if set, else the call's, observed through Plot.layers[k]['mode'], the class and vmin/vmax of "
        "params['norm'], extra keywords in params, the data for operation (thick-map reduction and unit; histogram2d "
        "sum vs mean) and bin counts / weighted totals for histogram1d.  non-trivial = an argument object reused by "
        ">=2 calls (history) / an option set at both levels with different values (lattice).")
ASSUMPTIONS = ["matplotlib figures (Agg) are created only by histogram1d/scatter/plot and by the plot=True cases and are "
               "closed after each call", "vector layers are not rendered (quiver needs resolution >= 16)",
               "norm options are strings wherever a figure is rendered: a matplotlib Normalize instance handed in as an option "
               "is autoscaled in place by matplotlib itself then, which is outside what osyris does with its arguments; with "
               "plot=False a LogNorm instance with both limits set is handed in as well and must keep its limits",
               "limits are python floats (unpacked into keywords)"]
osyris = None
Layer = None
plt = None

MESH_SPEC = {"d": 3, "seed": 5, "base": 1, "depth": 1, "refine_p": 0.5, "hole_p": 0.0, "subtree_hole_p": 0.0, "L": 1.0,
             "corner": [0.0, 0.0, 0.0], "pos_unit": "cm", "dx_unit": "same", "max_cells": 200}


def prepare(ctx):
    global osyris, Layer, plt
    osyris = env.import_osyris()
    from osyris.core import Layer as _L
    Layer = _L
    import matplotlib.pyplot as _plt
    plt = _plt


# ------------------------------------------------------------------ snapshots
def snap(o, depth=0):
    if isinstance(o, osyris.Array):
        return ("A", o._array.tobytes(), str(o._array.dtype), o._array.shape, str(o.unit), o.name)
    if isinstance(o, osyris.Vector):
        return ("V", tuple(snap(c) for c in o._xyz.values()), o.name)
    if isinstance(o, osyris.VectorBasis):
        return ("VB", snap(o.n), snap(o.u), snap(o.v))
    if isinstance(o, osyris.Datagroup):
        return ("DG", tuple((k, snap(o[k])) for k in o.keys()))
    if isinstance(o, Layer):
        return ("L", o.key, tuple((k, snap(v)) for k, v in o.arrays.items()), o.mode, o.operation, repr(o.norm),
                repr(o.vmin), repr(o.vmax), snap(o.bins), snap(o.weights), snap(o.kwargs))
    if isinstance(o, dict):
        return ("D", tuple((k, snap(v)) for k, v in o.items()))
    if isinstance(o, (list, tuple)):
        return ("S", tuple(snap(v) for v in o))
    if isinstance(o, np.ndarray):
        return ("nd", o.tobytes(), o.shape)
    if hasattr(o, "magnitude") and hasattr(o, "units"):
        return ("Q", repr(np.asarray(o.magnitude).tolist()), str(o.units))
    return ("o", repr(o))


def plot_data(p):
    """Comparable summary of a returned Plot."""
    out = {"x": None if p.x is None else np.asarray(p.x, dtype=np.float64).tolist(),
           "y": None if p.y is None else np.asarray(p.y, dtype=np.float64).tolist(), "layers": []}
    layers = p.layers
    if isinstance(layers, dict):
        layers = [layers]
    for lay in layers or []:
        d = {}
        for k, v in lay.items():
            if k == "data":
                if v is None:
                    d[k] = None
                else:
                    d[k] = (np.ma.filled(np.ma.masked_invalid(np.ma.asarray(v, dtype=np.float64)), -12345.678).tolist(),
                            np.ma.getmaskarray(v).tolist())
            elif k == "params":
                pr = {}
                for kk, vv in v.items():
                    if kk == "norm":
                        pr[kk] = (type(vv).__name__, repr(getattr(vv, "vmin", None)), repr(getattr(vv, "vmax", None)))
                    elif isinstance(vv, (osyris.Array, np.ndarray)):
                        pr[kk] = snap(vv if isinstance(vv, osyris.Array) else np.asarray(vv))
                    else:
                        pr[kk] = repr(vv)
                d[k] = pr
            elif k in ("x", "y"):
                d[k] = snap(v)
            else:
                d[k] = str(v)
        out["layers"].append(d)
    return out


def quiet(fn):
    with warnings.catch_warnings(), np.errstate(all="ignore"), contextlib.redirect_stdout(io.StringIO()):
        warnings.simplefilter("ignore")
        try:
            return fn(), None
        except Exception as e:
            return None, e
        finally:
            plt.close("all")


# ------------------------------------------------------------------ history
call_st = st.one_of(
    st.fixed_dictionaries({"f": st.just("map"), "layers": st.lists(st.sampled_from(["L1", "L2", "L3", "L3v"]), min_size=1, max_size=2),
                           "scatter": st.sampled_from([False, False, "L4", "L4a"]),
                           "scatter_first": st.booleans(),
                           "res": st.sampled_from(["R", "R", "int", "default"]), "dz": st.sampled_from([None, "DZ1", "DZ2"]),
                           "dy": st.sampled_from([None, None, "DY"]),
                           "op": st.sampled_from([None, "mean", "sum"]), "dx": st.sampled_from(["DX", "DX", "DX", None]),
                           "origin": st.sampled_from(["O", "O", None]),
                           "dir": st.sampled_from(["z", "x", "N", "N", "U", "B", "top"]),
                           "plot": st.sampled_from([False, False, False, False, False, True]),
                           "norm": st.sampled_from([None, "log"]), "vmin": st.sampled_from([None, 0.5])}),
    st.fixed_dictionaries({"f": st.just("hist2d"), "layers": st.lists(st.sampled_from(["H1", "H2", "AX"]), max_size=2),
                           "res": st.sampled_from([4, 7]), "op": st.sampled_from([None, "mean"]),
                           "limits": st.sampled_from([None, "LIM"]), "log": st.booleans(),
                           "plot": st.sampled_from([False, False, False, True])}),
    st.fixed_dictionaries({"f": st.just("hist1d"), "layers": st.lists(st.sampled_from(["H1", "H3", "AX"]), min_size=1, max_size=2),
                           "bins": st.sampled_from([None, 5, "BINS"]), "weights": st.sampled_from([None, "W"])}),
    st.fixed_dictionaries({"f": st.just("scatter"), "color": st.sampled_from([None, "AY", "red"]),
                           "size": st.sampled_from([None, 3.0, "AS", "ASN"])}),
    st.fixed_dictionaries({"f": st.just("plot"), "two": st.booleans(), "kw": st.sampled_from([None, "--"]),
                           "form": st.sampled_from(["arrays", "arrays", "dict"])}),
)
hist_case_st = st.fixed_dictionaries({
    "rkeys": st.sampled_from(["x", "xy", "xy", "y", "xyz", "xz", "", "xy"]),
    "l1": st.fixed_dictionaries({"mode": st.sampled_from([None, "image"]), "operation": st.sampled_from([None, "mean"]),
                                 "norm": st.sampled_from([None, "log"]), "vmin": st.sampled_from([None, 1.0]),
                                 "cmap": st.sampled_from([None, "magma"])}),
    "calls": st.lists(call_st, min_size=2, max_size=5),
})


def _world(case):
    m = meshes.build(MESH_SPEC)
    dg = meshes.datagroup(m, osyris)
    n = m.n
    l1kw = {k: v for k, v in case["l1"].items() if v is not None}
    w = {
        "dg": dg,
        "L1": dg.layer("scalar1", **l1kw),
        "L2": dg.layer("scalar2"),
        "L3": dg.layer("vec"),
        "L4": Layer(osyris.Vector(*[osyris.Array(values=np.array([0.2, 0.5, 0.8, 0.55]) + 0.01 * i, unit="cm") for i in range(3)],
                                  name="sinks"), mode="scatter", c="red"),
        "L3v": dg.layer("vec", mode="vec", color=dg["velocity"]),
        "L4a": Layer(osyris.Vector(*[osyris.Array(values=np.array([0.2, 0.5, 0.8, 0.55]) + 0.01 * i, unit="cm") for i in range(3)],
                                   name="sinks"), mode="scatter",
                     s=osyris.Array(values=np.array([0.2, 0.3, 0.4, 0.5]), unit="mm", name="size"),
                     c=osyris.Array(values=np.array([1.0, 2.0, 3.0, 4.0]), unit="g", name="col")),
        "R": {k: {"x": 8, "y": 4, "z": 3}[k] for k in case["rkeys"]},
        "O": osyris.Vector(0.5317, 0.4523, 0.5711, unit="cm"),
        "N": osyris.Vector(1.0, 0.5, 2.0),
        "U": osyris.Vector(0.6, 0.0, 0.8, name="spin"),                  # already of unit length
        "B": osyris.VectorBasis(n=osyris.Vector(1.0, 2.0, 2.0, name="bn") / 3.0, u=osyris.Vector(2.0, 1.0, -2.0, name="bu") / 3.0,
                                v=osyris.Vector(-2.0, 2.0, -1.0, name="bv") / 3.0),
        "DX": 0.9137 * osyris.units("cm"),
        "DY": 7.313 * osyris.units("mm"),
        "DZ1": 3.141 * osyris.units("mm"),
        "DZ2": 6.271 * osyris.units("mm"),
        "AX": osyris.Array(values=np.linspace(1.0, 9.0, n), unit="cm", name="ax"),
        "AY": osyris.Array(values=np.linspace(2.0, 30.0, n) ** 1.5, unit="g", name="ay"),
        "AS": osyris.Array(values=np.linspace(0.1, 0.2, n), unit="cm", name="as"),
        "W": osyris.Array(values=np.linspace(1.0, 2.0, n), unit="g", name="w"),
        # sizes with entries that cannot be drawn (NaN, inf), in the unit of the positions
        "ASN": osyris.Array(values=np.where(np.arange(n) % 5 == 1, np.nan, np.where(np.arange(n) % 7 == 3, np.inf,
                                                                                     np.linspace(0.1, 0.2, n))), unit="cm", name="asn"),
        "BINS": np.linspace(0.0, 10.0, 7),
        "LIM": {"xmin": 0.5, "xmax": 9.5, "ymin": 1.0, "ymax": 200.0},
    }
    w["H1"] = Layer(w["AY"], operation="mean")
    w["H2"] = Layer(osyris.Array(values=np.arange(n, dtype=np.float64), unit="K", name="h2"), norm="log", vmin=1.0)
    w["H3"] = Layer(w["W"], bins=4)
    w["PD"] = {"x": w["AX"], "y": w["AY"]}
    return w


def _do_call(c, w):
    f = c["f"]
    if f == "map":
        kw = {"plot": c["plot"], "direction": w[c["dir"]] if c["dir"] in ("N", "U", "B") else c["dir"]}
        if c["res"] != "default":
            kw["resolution"] = w["R"] if c["res"] == "R" else 8
        elif not c["dx"] or c["plot"]:
            kw["resolution"] = 8          # the default grid (256 x 256) is only affordable on a small window without a figure
        if c["dx"]:
            kw["dx"] = w["DX"]
            if c.get("dy"):
                kw["dy"] = w["DY"]
        if c["origin"]:
            kw["origin"] = w["O"]
        if c["dz"] and c["dx"]:
            kw["dz"] = w[c["dz"]] if isinstance(c["dz"], str) else c["dz"] * osyris.units("cm")
        if c["op"]:
            kw["operation"] = c["op"]
        if c["norm"]:
            kw["norm"] = c["norm"]
        if c["vmin"]:
            kw["vmin"] = c["vmin"]
        layers = [w[k] for k in c["layers"]]
        vecs = (w["L3"], w["L3v"])
        if c["plot"]:
            layers = [l for l in layers if not any(l is v for v in vecs)] or [w["L2"]]
        if c.get("scatter"):
            l4 = w["L4a"] if c["scatter"] == "L4a" else w["L4"]
            # (a scatter layer is not reduced: it must not take the place of a field layer's options, wherever it stands)
            # (the first layer must be a mesh layer, it carries the positions: "first" = right behind it)
            layers = layers[:1] + [l4] + layers[1:] if c.get("scatter_first") else layers + [l4]
            if c["dir"] in ("z", "x"):
                kw["plot"] = True        # the scatter layer is only used when the figure is rendered
                if "resolution" not in kw:
                    kw["resolution"] = 8
                layers = [l for l in layers if not any(l is v for v in vecs)]
                if all(l is l4 for l in layers):
                    layers = [w["L2"]] + layers
        return osyris.map(*layers, **kw)
    if f == "hist2d":
        kw = {"plot": c["plot"], "resolution": c["res"]}
        if c["op"]:
            kw["operation"] = c["op"]
        if c["limits"]:
            kw.update(w["LIM"])
        if c["log"]:
            kw["loglog"] = True
        return osyris.histogram2d(w["AX"], w["AY"], *[w[k] for k in c["layers"]], **kw)
    if f == "hist1d":
        kw = {}
        if c["bins"] is not None:
            kw["bins"] = w["BINS"] if c["bins"] == "BINS" else c["bins"]
        if c["weights"]:
            kw["weights"] = w["W"]
        return osyris.histogram1d(*[w[k] for k in c["layers"]], **kw)
    if f == "scatter":
        kw = {}
        if c["color"]:
            kw["color"] = w["AY"] if c["color"] == "AY" else c["color"]
        if c["size"]:
            kw["size"] = w[c["size"]] if c["size"] in ("AS", "ASN") else c["size"]
        return osyris.scatter(w["AX"], w["AX"] * 2.0 if False else w["AS"], **kw)
    if c.get("form") == "dict":
        return osyris.plot(w["PD"], **({"ls": c["kw"]} if c["kw"] else {}))
    args = [w["AX"], w["AY"]] + ([w["W"].to("kg")] if False else [])
    if c["two"]:
        args.append(osyris.Array(values=w["AY"].values * 0.5, unit="g", name="half"))
    kw = {"ls": c["kw"]} if c["kw"] else {}
    return osyris.plot(*args, **kw)


def history(case, r):
    w = _world(case)
    pristine = copy.deepcopy(case)
    used = {}
    first_result = None
    for i, c in enumerate(case["calls"]):
        before = {k: snap(v) for k, v in w.items()}
        p, exc = quiet(lambda: _do_call(c, w))
        after = {k: snap(v) for k, v in w.items()}
        for k in before:
            if before[k] != after[k]:
                what = "resolution-dict" if k == "R" else ("layer" if k.startswith(("L", "H")) else "argument")
                detail = f"call {i} {c['f']} changed argument {k}"
                if k == "R":
                    detail += f": {dict(w['R'])} (keys given: {case['rkeys']!r})"
                r.bad(["input-modified", c["f"], what], detail)
                return
        # fresh execution with pristine arguments
        fresh_w = _world(pristine)
        pf, excf = quiet(lambda: _do_call(c, fresh_w))
        if (exc is None) != (excf is None):
            r.bad(["history-changes-outcome", c["f"]], f"call {i} {c}: raised {exc!r} here but {excf!r} with fresh arguments")
            return
        names = [c["f"]] + [k for k in (c.get("layers") or [])] + (["R"] if c.get("res") == "R" else []) + (
            [c["scatter"]] if c.get("scatter") else [])
        if c.get("scatter"):
            r.label("scatter_layer")
        for nme in names:
            used[nme] = used.get(nme, 0) + 1
        if exc is not None:
            r.label("call_raises_both")
            continue
        d1, d2 = plot_data(p), plot_data(pf)
        if i == 0:
            first_result = d1
        if c["f"] == "map":
            r.label("dir_" + str(c["dir"]))
        if d1 != d2:
            which = [k for k in ("x", "y") if d1[k] != d2[k]] or ["layers"]
            r.bad(["result-depends-on-history", c["f"], which[0]], f"call {i} {c}: returned {which} differ from the same call "
                  f"with fresh arguments; earlier calls {[cc['f'] for cc in case['calls'][:i]]}; resolution dict now {dict(w['R'])}")
            return
    if first_result is not None and not r.records:
        # "calling them again with the same arguments returns the same data": the first call once more, after the others
        # (state kept inside the library, e.g. a cached norm or a mutable default, is shared by history and fresh worlds)
        p, exc = quiet(lambda: _do_call(case["calls"][0], w))
        if exc is not None:
            r.bad(["repeat-of-first-call-raises", case["calls"][0]["f"]], f"{exc!r} after {[cc['f'] for cc in case['calls']]}")
            return
        if plot_data(p) != first_result:
            r.bad(["repeat-of-first-call-differs", case["calls"][0]["f"]],
                  f"call 0 {case['calls'][0]} repeated after {[cc['f'] for cc in case['calls'][1:]]} returned different data")
            return
        r.label("first_call_repeated")
    r.nontrivial(any(v >= 2 for k, v in used.items() if k not in ("map", "hist2d", "hist1d", "scatter", "plot")))
    if used.get("R", 0) >= 2:
        r.label("resolution_dict_reused")
    for f in ("map", "hist2d", "hist1d", "scatter", "plot"):
        if used.get(f):
            r.label("calls_" + f)


# ------------------------------------------------------------------ option lattice
OPTS = {
    "map": ["mode", "norm", "vmin", "vmax", "operation", "cmap"],
    "hist2d": ["mode", "norm", "vmin", "vmax", "operation", "cmap"],
    "hist1d": ["bins", "weights", "cumulative"],
}
VALUES = {"mode": ("image", "contourf"), "norm": ("log", "linear"), "vmin": (0.0, 2.0), "vmax": (0, 80.0),
          "operation": ("mean", "sum"), "cmap": ("magma", "viridis"), "bins": (4, 9), "weights": ("W1", "W2"),
          "cumulative": (True, False)}          # an extra keyword option of histogram1d (handed to matplotlib's hist)


def _lattice_cases():
    out = []
    for f, opts in OPTS.items():
        for opt in opts:
            for level in ("neither", "layer", "call", "both"):
                for flip in (0, 1):
                    out.append({"f": f, "opt": opt, "level": level, "flip": flip, "other": None})
        if f == "map":
            # the same with a scatter layer standing before the two field layers (it is not reduced and must not shift
            # the options of the layers behind it)
            for opt in ("operation", "norm", "vmin"):
                for level in ("layer", "call", "both"):
                    out.append({"f": f, "opt": opt, "level": level, "flip": 0, "other": None, "scatter_first": True})
        if f in ("map", "hist2d"):
            # a ready-made matplotlib norm (both limits set) handed in at one level, limits handed in at either level:
            # the caller's norm object is an argument like any other
            for level in ("layer", "call"):
                for lim in ("layer", "call", "none"):
                    out.append({"f": f, "opt": "norm", "level": level, "flip": 0, "other": None, "norm_instance": lim})
        if f == "map":
            # the colouring Array of a vector layer is an option like the others: the layer's own one wins over the call's
            for level in ("layer", "call", "both"):
                for mode in ("vec", "stream"):
                    out.append({"f": f, "opt": "color", "level": level, "flip": 0, "other": None, "vec_color": mode})
        # pairwise: a second option set at the opposite level
        for o1 in opts:
            for o2 in opts:
                if o1 < o2:
                    out.append({"f": f, "opt": o1, "level": "both", "flip": 0, "other": {"opt": o2, "level": "layer"}})
                    out.append({"f": f, "opt": o1, "level": "layer", "flip": 1, "other": {"opt": o2, "level": "call"}})
    return out


def _norm_of(params):
    nm = params.get("norm")
    return type(nm).__name__, getattr(nm, "vmin", None), getattr(nm, "vmax", None)


def lattice_norm_instance(case, r):
    import matplotlib.colors as mc
    f, level, lim = case["f"], case["level"], case["norm_instance"]
    r.nontrivial(lim != "none")
    r.label("f_" + f, "norm_instance", "level_" + level, "limits_" + lim)
    nrm = mc.LogNorm(vmin=1.0, vmax=1000.0)
    limits = {"vmin": 5.0, "vmax": 50.0}
    lay_kw, call_kw = {}, {}
    (lay_kw if level == "layer" else call_kw)["norm"] = nrm
    if lim != "none":
        (lay_kw if lim == "layer" else call_kw).update(limits)
    m = meshes.build(MESH_SPEC)
    dg = meshes.datagroup(m, osyris)
    n = m.n
    if f == "map":
        call = lambda: osyris.map(dg.layer("scalar1", **lay_kw), dg.layer("scalar2"), direction="z", dx=0.9137 * osyris.units("cm"),
                                  origin=osyris.Vector(0.5217, 0.4723, 0.5611, unit="cm"), resolution=5, plot=False, **call_kw)
    else:
        x = osyris.Array(values=np.linspace(1.0, 9.0, n), unit="cm")
        y = osyris.Array(values=np.linspace(2.0, 30.0, n), unit="g")
        va = osyris.Array(values=np.arange(n, dtype=np.float64) + 1, unit="K", name="a")
        vb = osyris.Array(values=np.arange(n, dtype=np.float64) * 2 + 1, unit="K", name="b")
        call = lambda: osyris.histogram2d(x, y, Layer(va, **lay_kw), vb, resolution=3, plot=False, **call_kw)
    for k in range(2):
        p, exc = quiet(call)
        if exc is not None:
            r.bad(["lattice", "raises", f, "norm-instance", level], f"{exc!r}; layer kw {list(lay_kw)} call kw {list(call_kw)}")
            return
        if (type(nrm).__name__, nrm.vmin, nrm.vmax) != ("LogNorm", 1.0, 1000.0):
            r.bad(["lattice", "argument-modified", f, "norm-instance"],
                  f"the LogNorm(vmin=1, vmax=1000) object given at the {level} level has limits ({nrm.vmin}, {nrm.vmax}) after "
                  f"call {k + 1} with plot=False (limits {limits} given at level {lim!r})")
            return


def lattice_vec_color(case, r):
    level, mode = case["level"], case["vec_color"]
    r.nontrivial(level == "both")
    r.label("f_map", "opt_color_of_vector_layer", "level_" + level, "mode_" + mode)
    m = meshes.build(MESH_SPEC)
    dg = meshes.datagroup(m, osyris)
    ca = osyris.Array(values=np.linspace(1.0, 2.0, m.n), unit="K", name="ca")
    cb = osyris.Array(values=np.linspace(50.0, 90.0, m.n) ** 1.3, unit="g", name="cb")

    def run(lay_color, call_color):
        lkw = {"color": lay_color} if lay_color is not None else {}
        ckw = {"color": call_color} if call_color is not None else {}
        return quiet(lambda: osyris.map(dg.layer("scalar1"), dg.layer("vec", mode=mode, **lkw), direction="z",
                                        dx=0.9137 * osyris.units("cm"), origin=osyris.Vector(0.5217, 0.4723, 0.5611, unit="cm"),
                                        resolution=5, plot=False, **ckw))
    lay_c = ca if level in ("layer", "both") else None
    call_c = cb if level in ("call", "both") else None
    eff = lay_c if lay_c is not None else call_c
    p, exc = run(lay_c, call_c)
    ref, exc2 = run(eff, None)                  # the effective colouring given at the layer alone
    other, _ = run(cb if eff is ca else ca, None)
    if exc is not None or exc2 is not None:
        r.bad(["lattice", "raises", "map", "color", level], f"{exc!r} / {exc2!r}")
        return
    got, want, alt = (np.ma.filled(x.layers[1]["data"], np.nan) for x in (p, ref, other))
    if got.shape != want.shape or not np.allclose(got, want, rtol=1e-12, atol=0, equal_nan=True):
        hint = " (it is the other Array's)" if got.shape == alt.shape and np.allclose(got, alt, rtol=1e-12, atol=0, equal_nan=True) else ""
        r.bad(["lattice", "option-not-effective", "map", "color", "layer-level" if lay_c is not None else "call-level"],
              f"{mode} layer, colouring Array given at level {level!r}: the third component of the data is not that of the "
              f"effective Array ({eff.name}){hint}")


def lattice(case, r):
    if case.get("norm_instance"):
        return lattice_norm_instance(case, r)
    if case.get("vec_color"):
        return lattice_vec_color(case, r)
    f, opt, level = case["f"], case["opt"], case["level"]
    lv, cv = VALUES[opt][case["flip"]], VALUES[opt][1 - case["flip"]]
    r.nontrivial(level == "both")
    r.label("f_" + f, "opt_" + opt, "level_" + level)
    settings = {opt: {"layer": lv if level in ("layer", "both") else None, "call": cv if level in ("call", "both") else None}}
    if case["other"]:
        o2 = case["other"]["opt"]
        settings[o2] = {"layer": VALUES[o2][0] if case["other"]["level"] == "layer" else None,
                        "call": VALUES[o2][1] if case["other"]["level"] == "call" else None}
    m = meshes.build(MESH_SPEC)
    dg = meshes.datagroup(m, osyris)
    n = m.n
    # (the two weights are in different units: a layer's own weights are used as they are)
    W = {"W1": osyris.Array(values=np.linspace(1, 2, n), unit="g"), "W2": osyris.Array(values=np.linspace(5, 9, n), unit="kg")}
    lay_kw = {o: (W[s["layer"]] if o == "weights" else s["layer"]) for o, s in settings.items() if s["layer"] is not None}
    call_kw = {o: (W[s["call"]] if o == "weights" else s["call"]) for o, s in settings.items() if s["call"] is not None}

    def eff(o, first):
        s = settings.get(o)
        if not s:
            return None
        if first and s["layer"] is not None:
            return s["layer"]
        return s["call"]

    if f == "map":
        la = dg.layer("scalar1", **lay_kw)
        lb = dg.layer("scalar2")
        pre = []
        if case.get("scatter_first"):
            pre = [Layer(osyris.Vector(*[osyris.Array(values=np.array([0.2, 0.5, 0.8, 0.55]) + 0.01 * i, unit="cm") for i in range(3)],
                                       name="sinks"), mode="scatter", c="red")]
            r.label("scatter_layer_first")
        # (the first layer must be a mesh layer: it carries the positions) order: lb, scatter, la
        order = [lb] + pre + [la] if pre else [la, lb]
        p, exc = quiet(lambda: osyris.map(*order, direction="z", dx=0.9137 * osyris.units("cm"), dz=0.5171 * osyris.units("cm"),
                                          origin=osyris.Vector(0.5217, 0.4723, 0.5611, unit="cm"), resolution={"x": 5, "y": 5, "z": 4},
                                          plot=False, **call_kw))
        ref = {}
        ref_order = ("scalar2", "scalar1") if pre else ("scalar1", "scalar2")
        for op in ("sum", "mean"):
            ref[op], _ = quiet(lambda op=op: osyris.map(dg.layer(ref_order[0]), dg.layer(ref_order[1]), direction="z",
                                                        dx=0.9137 * osyris.units("cm"), dz=0.5171 * osyris.units("cm"),
                                                        origin=osyris.Vector(0.5217, 0.4723, 0.5611, unit="cm"),
                                                        resolution={"x": 5, "y": 5, "z": 4}, plot=False, operation=op))
    elif f == "hist2d":
        x = osyris.Array(values=np.linspace(1.0, 9.0, n), unit="cm")
        y = osyris.Array(values=np.linspace(2.0, 30.0, n), unit="g")
        va = osyris.Array(values=np.arange(n, dtype=np.float64) + 1, unit="K", name="a")
        vb = osyris.Array(values=np.arange(n, dtype=np.float64) * 2 + 1, unit="K", name="b")
        la = Layer(va, **lay_kw)
        p, exc = quiet(lambda: osyris.histogram2d(x, y, la, vb, resolution=3, plot=False, **call_kw))
        ref = {}
        for op in ("sum", "mean"):
            ref[op], _ = quiet(lambda op=op: osyris.histogram2d(x, y, va, vb, resolution=3, plot=False, operation=op))
    else:
        x = osyris.Array(values=np.linspace(1.0, 9.0, n), unit="cm", name="a")
        x2 = osyris.Array(values=np.linspace(2.0, 7.0, n), unit="cm", name="b")
        la = Layer(x, **lay_kw)
        # histogram1d returns the data of the LAST layer: call it once per layer position
        p, exc = quiet(lambda: osyris.histogram1d(la, **call_kw))
        p2, exc2 = quiet(lambda: osyris.histogram1d(la, x2, **call_kw))
        if exc is not None or exc2 is not None:
            r.bad(["lattice", "raises", f, opt, level], f"{exc!r} / {exc2!r}")
            return
        for first, pp, xv in ((True, p, x), (False, p2, x2)):
            nb = eff("bins", first) or 50
            if len(pp.x) != nb:
                r.bad(["lattice", "option-not-effective", f, "bins", "layer-level" if first else "call-level"],
                      f"{len(pp.x)} bins, effective option is {nb} (settings {settings})")
                return
            wname = eff("weights", first)
            want = float(np.sum(W[wname].values)) if wname else float(n)
            yv = np.asarray(pp.y, dtype=np.float64)
            is_cum = len(yv) > 1 and abs(float(yv[-1]) - want) <= 1e-9 * want
            if "cumulative" in settings:
                ecum = bool(eff("cumulative", first))
                if is_cum != ecum:
                    r.bad(["lattice", "option-not-effective", f, "cumulative", "layer-level" if first else "call-level"],
                          f"histogram values {yv.tolist()} are {'cumulative' if is_cum else 'not cumulative'}, effective option "
                          f"is cumulative={ecum} (settings {settings})")
                    return
            total = float(yv[-1]) if is_cum else float(np.sum(yv))
            if abs(total - want) > 1e-9 * want:
                r.bad(["lattice", "option-not-effective", f, "weights", "layer-level" if first else "call-level"],
                      f"histogram total {total}, effective weights {wname} give {want} (settings {settings})")
                return
        return
    if exc is not None:
        r.bad(["lattice", "raises", f, opt, level], f"{exc!r}; layer kw {lay_kw} call kw {list(call_kw)}")
        return
    if len(p.layers) != 2:
        r.bad(["lattice", "layer-count", f], f"{len(p.layers)} layers returned for two field layers")
        return
    for k, first in (((1, True), (0, False)) if case.get("scatter_first") else ((0, True), (1, False))):
        lay = p.layers[k]
        for o in settings:
            e = eff(o, first)
            lvl = "layer-level" if (first and settings[o]["layer"] is not None) else "call-level"
            if o == "mode":
                if lay["mode"] != e:
                    r.bad(["lattice", "option-not-effective", f, o, lvl], f"layer {k}: mode {lay['mode']!r}, effective {e!r} ({settings})")
                    return
            elif o in ("norm", "vmin", "vmax"):
                cls, vmin, vmax = _norm_of(lay["params"])
                wantcls = {"log": "LogNorm", "linear": "Normalize", None: "Normalize"}[eff("norm", first)]
                if cls != wantcls:
                    r.bad(["lattice", "option-not-effective", f, "norm", lvl], f"layer {k}: norm {cls}, effective {wantcls} ({settings})")
                    return
                if "vmin" in settings and vmin != eff("vmin", first):
                    r.bad(["lattice", "option-not-effective", f, "vmin", lvl], f"layer {k}: vmin {vmin}, effective {eff('vmin', first)}")
                    return
                if "vmax" in settings and vmax != eff("vmax", first):
                    r.bad(["lattice", "option-not-effective", f, "vmax", lvl], f"layer {k}: vmax {vmax}, effective {eff('vmax', first)}")
                    return
            elif o == "cmap":
                got = lay["params"].get("cmap")
                if got != e:
                    r.bad(["lattice", "option-not-effective", f, o, lvl], f"layer {k}: cmap {got!r}, effective {e!r} ({settings})")
                    return
            elif o == "operation":
                eo = e or "sum"
                rl = ref[eo].layers[k]
                same = np.ma.allclose(lay["data"], rl["data"]) and np.array_equal(np.ma.getmaskarray(lay["data"]),
                                                                                   np.ma.getmaskarray(rl["data"]))
                if not same or str(lay["unit"]) != str(rl["unit"]):
                    other = "mean" if eo == "sum" else "sum"
                    ro = ref[other].layers[k]
                    hint = " (it equals the other operation's result)" if np.ma.allclose(lay["data"], ro["data"]) else ""
                    r.bad(["lattice", "option-not-effective", f, o, lvl], f"layer {k}: data/unit are not those of operation "
                          f"{eo!r}{hint}; unit {lay['unit']} vs {rl['unit']} ({settings})")
                    return


# ------------------------------------------------------------------ calls that share a matplotlib axes
axes_case_st = st.fixed_dictionaries({
    "f": st.sampled_from(["hist1d", "hist1d", "hist2d"]),
    # the call that is made twice, and the calls made on the same axes in between
    "first": st.fixed_dictionaries({"log": st.booleans(), "bins": st.sampled_from([7, 20, None])}),
    "between": st.lists(st.fixed_dictionaries({"log": st.booleans(), "bins": st.sampled_from([7, 20, None])}), min_size=1, max_size=3),
    "bins_at": st.sampled_from(["call", "layer"]),
})


def shared_axes(case, r):
    """c1, others..., c1 again on one axes object: the two executions of c1 have the same arguments (the axes included) and
    must return the same data, whatever the calls in between left on the axes (scales, artists)."""
    n = 40
    a = osyris.Array(values=np.linspace(1.0, 900.0, n) ** 1.1, unit="cm", name="a")
    b = osyris.Array(values=np.linspace(2.0, 30.0, n), unit="g", name="b")
    f = case["f"]
    r.label("axes_" + f)
    r.nontrivial(any(c["log"] != case["first"]["log"] for c in case["between"]))
    if r.records is not None and any(c["log"] != case["first"]["log"] for c in case["between"]):
        r.label("axes_scale_changed_in_between")
    fig, ax = plt.subplots()

    def call(c):
        if f == "hist1d":
            kw = {"logx": c["log"], "ax": ax}
            lay = a
            if c["bins"] is not None:
                if case["bins_at"] == "layer":
                    lay = Layer(a, bins=c["bins"])
                else:
                    kw["bins"] = c["bins"]
            return quiet(lambda: osyris.histogram1d(lay, **kw))
        return quiet(lambda: osyris.histogram2d(a, b, resolution=c["bins"] or 6, logx=c["log"], ax=ax))
    try:
        p1, e1 = call(case["first"])
        for c in case["between"]:
            call(c)
        p2, e2 = call(case["first"])
        if (e1 is None) != (e2 is None):
            r.bad(["shared-axes", "exception-differs", f], f"first execution {e1!r}, second {e2!r}; {case}")
            return
        if e1 is not None:
            return
        d1 = [np.asarray(p1.x), np.asarray(p1.y)] + ([np.ma.filled(p1.layers[0]["data"], np.nan)] if f == "hist2d" else [])
        d2 = [np.asarray(p2.x), np.asarray(p2.y)] + ([np.ma.filled(p2.layers[0]["data"], np.nan)] if f == "hist2d" else [])
        for k, (u, v) in enumerate(zip(d1, d2)):
            if u.shape != v.shape or not np.array_equal(u, v, equal_nan=True):
                r.bad(["shared-axes", "same-call-different-data", f],
                      f"{f} called with {case['first']} on an axes, then {case['between']} on the same axes, then the first call "
                      f"again: returned data differ ({'x' if k == 0 else 'y' if k == 1 else 'layer'}: {u.shape} vs {v.shape})")
                return
    finally:
        plt.close("all")


def subs(ctx):
    return [
        Sub("shared_axes", shared_axes, strategy=axes_case_st, quick=60, thorough=400),
        Sub("lattice", lattice, cases=_lattice_cases(), shard=False),
        Sub("history", history, strategy=hist_case_st, quick=120, thorough=600,
            required={"resolution_dict_reused": 0.1, "calls_map": 0.35, "calls_hist2d": 0.15, "calls_hist1d": 0.15}),
    ]
