"""C16 - Sub-domain extraction returns exactly the rows inside the region (DESIGN.md C16)."""
import warnings

import numpy as np
from hypothesis import strategies as st

from vlib import env
from vlib import unitmodel as um
from vlib.harness import Sub

PROPERTY = "C16"
RULE = ("generated Datasets: a 'mesh' group (position Vector of 1-3 components + Arrays and Vectors; absent in 1 case of 6), "
        "a particle-like group with its own positions and another or the same row count, groups and members inserted in "
        "a shuffled order in half of the cases, a group without positions of mesh length (falls back to "
        "the mesh positions), a group without positions of another length (ignored), 0-200 rows, meta content; origin "
        "Vector and radius / (dx,dy,dz) as pint Quantity or 0-d Array in independently drawn length units; regions "
        "containing nothing / everything / rows exactly on the boundary (integer coordinates in one unit; for boxes rows planted "
        "on each of the six faces) / close to it, origins inside the extent of the rows or beyond it on one axis; a third of "
        "the datasets is extracted from twice, with two regions. "
        "Oracle: membership in cgs from the independent unit model (r < R strict, |offset| <= half inclusive; rows "
        "within 1e-9 relative of the boundary are not judged unless all quantities share one unit and are integers); "
        "the result must hold exactly the groups with >=1 member, each equal to the input group indexed by the mask "
        "(every variable, unit, name; the order of the kept rows is not judged), meta equal, input dataset bit-identical "
        "afterwards, no buffers shared with it (a new dataset).  "
        "non-trivial = mask neither all-true nor all-false and positions/origin/size in >=2 different units.")
ASSUMPTIONS = ["extract_box is generated with 3-component positions only (its signature requires dx, dy, dz)",
               "a group without positions and with a row count different from the mesh is skipped with a warning"]
osyris = None
LU = ["cm", "m", "km", "au", "pc"]


def prepare(ctx):
    global osyris
    osyris = env.import_osyris()


@st.composite
def case_st(draw):
    kind = draw(st.sampled_from(["sphere", "sphere", "box"]))
    nvec = 3 if kind == "box" else draw(st.sampled_from([1, 2, 3, 3]))
    exact = draw(st.integers(0, 4)) == 0
    pu = draw(st.sampled_from(LU))
    ou = pu if exact else draw(st.sampled_from(LU))
    su = pu if exact else draw(st.sampled_from(LU))
    n_mesh = draw(st.sampled_from([0, 1, 2, 7, 30, 200]))
    return {"kind": kind, "nvec": nvec, "n_mesh": n_mesh,
            # (a particle group with as many rows as the mesh still has its own positions)
            "n_part": draw(st.sampled_from([0, 1, 5, 40, n_mesh, n_mesh])), "seed": draw(st.integers(0, 2 ** 31 - 2)),
            "with_mesh": draw(st.integers(0, 5)) > 0, "origin_outside": draw(st.integers(0, 3)) == 0, "shuffle": draw(st.booleans()), "second": draw(st.integers(0, 2)) == 0,
            "pu": pu, "ou": ou, "su": su, "part_pu": pu if exact else draw(st.sampled_from(LU)),
            "exact": exact, "region": draw(st.sampled_from(["some", "some", "some", "none", "all", "tiny"])),
            "size_as": draw(st.sampled_from(["Q", "A0"])), "extra_same": draw(st.booleans()),
            "extra_other": draw(st.booleans()), "with_part": draw(st.booleans()),
            "aspect": [draw(st.sampled_from([0.5, 1.0, 2.0])) for _ in range(3)],
            "box_units": [pu if exact else draw(st.sampled_from(LU)) for _ in range(3)],
            "reparent": draw(st.sampled_from([None, None, "copy_recentre", "share_no_mesh"])),
            # exact data only: positions and origin are int32 counts of a small length (x 20000: squares exceed int32)
            "int_pos": exact and draw(st.booleans()),
            # one variable stored under a second key of its group as well (its .name then differs from the first key)
            "alias": draw(st.integers(0, 3)) == 0,
            # a few rows whose position has a NaN component: they lie inside no region
            "nan_rows": (not exact) and draw(st.integers(0, 3)) == 0}


def _snap_ds(ds):
    out = {"__keys__": list(ds.keys()), "__meta__": dict(ds.meta)}
    for g in ds.keys():
        grp = ds[g]
        out[g] = {"__keys__": list(grp.keys())}
        for k in grp.keys():
            v = grp[k]
            arrs = list(v._xyz.values()) if isinstance(v, osyris.Vector) else [v]
            out[g][k] = [(a._array.tobytes(), str(a.unit), a._array.shape, v.name) for a in arrs]
    return out


def _buffers(ds):
    out = []
    for g in ds.keys():
        for k in ds[g].keys():
            v = ds[g][k]
            out += [a._array for a in (v._xyz.values() if isinstance(v, osyris.Vector) else [v])]
    return out


def extract(case, r):
    rng = np.random.RandomState(case["seed"])
    nvec, kind = case["nvec"], case["kind"]
    fpu, fou, fsu = um.parse(case["pu"])[0], um.parse(case["ou"])[0], um.parse(case["su"])[0]
    fpp = um.parse(case["part_pu"])[0]

    def positions(n, f_unit):
        """coordinates (in the group's position unit) scattered in [-10, 10] physical 'pu' units"""
        if case["exact"]:
            return rng.randint(-6, 7, size=(n, nvec)).astype(np.float64)
        return rng.uniform(-10, 10, size=(n, nvec)) * fpu / f_unit

    n_mesh, n_part = case["n_mesh"], case["n_part"]
    with_mesh = case.get("with_mesh", True)
    case = dict(case)
    if not with_mesh:
        # a dataset without a mesh group: only groups with their own positions can be extracted
        case.update(with_part=True, extra_same=False, extra_other=False, reparent=None)
        r.label("dataset_without_mesh")
    pm = positions(n_mesh, fpu)
    pp = positions(n_part, fpp)
    K = 20000 if case.get("int_pos") else 1
    pdt = np.int32 if case.get("int_pos") else np.float64
    if case.get("nan_rows"):
        for arr in (pm, pp):
            for _ in range(min(len(arr), 3)):
                arr[rng.randint(0, len(arr)), rng.randint(0, nvec)] = np.nan
        r.label("rows_with_nan_position")
    # exact data: origin and size are drawn first, so that rows can be planted on each face / on the sphere
    if case["exact"]:
        o = rng.randint(-2, 3, size=nvec).astype(np.float64)
        size = float(rng.choice([4.0, 8.0] if kind == "box" else [5.0, 3.0, 10.0, 4.0]))   # box: half-sizes are integers
        if kind == "box":
            halves = [size * a * 0.5 for a in case["aspect"]]
            planted = []
            for ax in range(3):
                for sgn in (-1.0, 1.0):
                    p = o.copy()
                    p[ax] += sgn * halves[ax]
                    planted.append(p)
            for arr in (pm, pp):
                k = min(len(arr), 6)
                if k:
                    sel6 = rng.permutation(6)[:k]
                    arr[:k] = np.array(planted)[sel6]
    groups = {}
    mesh = {}
    mesh["position"] = osyris.Vector(*[osyris.Array(values=(pm[:, i] * K).astype(pdt), unit=case["pu"]) for i in range(nvec)])
    mesh["density"] = osyris.Array(values=np.arange(n_mesh, dtype=np.float64) + 0.5, unit="g/cm**3")
    mesh["velocity"] = osyris.Vector(*[osyris.Array(values=np.arange(n_mesh, dtype=np.float64) * (i + 2), unit="km/s")
                                       for i in range(nvec)])
    mesh["level"] = osyris.Array(values=np.arange(n_mesh, dtype=np.int64) % 5)
    if case.get("alias"):
        mesh["rho"] = mesh["density"]           # the same object under two keys
        r.label("variable_under_two_keys")
    if with_mesh:
        groups["mesh"] = mesh
    if case["with_part"]:
        part = {}
        part["position"] = osyris.Vector(*[osyris.Array(values=(pp[:, i] * K).astype(pdt), unit=case["part_pu"]) for i in range(nvec)])
        part["mass"] = osyris.Array(values=np.arange(n_part, dtype=np.float64) + 100.0, unit="M_sun")
        groups["part"] = part
    if case["extra_same"]:
        ex = {}
        ex["temperature"] = osyris.Array(values=np.arange(n_mesh, dtype=np.float32) + 10.0, unit="K")
        ex["B"] = osyris.Vector(*[osyris.Array(values=np.arange(n_mesh, dtype=np.float64) - i, unit="erg") for i in range(nvec)])
        groups["extra"] = ex
    if case["extra_other"]:
        groups["other"] = {"stuff": osyris.Array(values=np.arange(n_mesh + 3, dtype=np.float64), unit="s")}
    ds = osyris.Dataset()
    gnames = list(groups)
    if case.get("shuffle"):
        # neither the mesh nor the position member need come first
        gnames = [gnames[i] for i in rng.permutation(len(gnames))]
        r.label("insertion_order_shuffled")
    for gname in gnames:
        members = list(groups[gname])
        if case.get("shuffle"):
            members = [members[i] for i in rng.permutation(len(members))]
        dgp = osyris.Datagroup()
        for k in members:
            dgp[k] = groups[gname][k]
        ds[gname] = dgp
    ds.meta.update({"time": 1.5, "ndim": nvec, "note": "x"})
    # the groups of ds may also have been inserted into other datasets (Dataset.copy() re-inserts the same group
    # objects): extraction must still use the positions of the dataset it is given
    keep_alive = []
    if case.get("reparent") == "copy_recentre":
        other = ds.copy()
        far = osyris.Datagroup()
        far["position"] = osyris.Vector(*[osyris.Array(values=((pm[:, i] + 1.0e3) * K).astype(pdt), unit=case["pu"]) for i in range(nvec)])
        far["density"] = osyris.Array(values=np.arange(n_mesh, dtype=np.float64) + 0.5, unit="g/cm**3")
        other["mesh"] = far
        keep_alive.append(other)
        r.label("groups_shared_with_other_dataset")
    elif case.get("reparent") == "share_no_mesh" and case["extra_same"]:
        other = osyris.Dataset()
        other["extra"] = ds["extra"]
        keep_alive.append(other)
        r.label("groups_shared_with_other_dataset")

    # ---- region
    if case["exact"]:
        pass                                                     # drawn above
    else:
        o = rng.uniform(-3, 3, size=nvec)
        if case.get("origin_outside"):
            # the origin beyond the extent of the rows on one axis (a region next to a compact group, or at the rim)
            ax = int(rng.randint(0, nvec))
            o[ax] = float(rng.choice([-1.0, 1.0]) * rng.uniform(8.0, 12.0))
            r.label("origin_outside_extent_on_one_axis")
        o = o * fpu / fou
        size = {"some": 6.0, "none": 1e-6, "all": 100.0, "tiny": 0.5}[case["region"]] * fpu / fsu
    def run_region(o, size):
        origin = osyris.Vector(*[osyris.Array(values=pdt(o[i] * K), unit=case["ou"]) for i in range(nvec)])
        if case.get("int_pos"):
            r.label("int32_positions_and_origin")

        def mk_size(v):
            if case["size_as"] == "Q":
                return v * K * osyris.units(case["su"])
            return osyris.Array(values=v * K, unit=case["su"])
        snap = _snap_ds(ds)
        with warnings.catch_warnings():
            warnings.simplefilter("ignore")
            try:
                if kind == "sphere":
                    sub = osyris.extract_sphere(ds, radius=mk_size(size), origin=origin)
                else:
                    sizes = [size * a for a in case["aspect"]]
                    bu = case.get("box_units") or [case["su"]] * 3

                    def mk_box(v, unit):
                        vv = v * K * fsu / um.parse(unit)[0]       # the same physical size expressed in this axis' unit
                        return vv * osyris.units(unit) if case["size_as"] == "Q" else osyris.Array(values=vv, unit=unit)
                    sub = osyris.extract_box(ds, dx=mk_box(sizes[0], bu[0]), dy=mk_box(sizes[1], bu[1]),
                                             dz=mk_box(sizes[2], bu[2]), origin=origin)
                    if len(set(bu)) > 1:
                        r.label("box_sizes_in_different_units")
            except Exception as e:
                r.bad(["raises", kind, type(e).__name__], f"{e!r}; groups {list(ds.keys())}")
                return
        if _snap_ds(ds) != snap:
            r.bad(["input-modified", kind], "the input dataset changed")
            return
        if not isinstance(sub, osyris.Dataset) or sub is ds:
            r.bad(["result-type"], type(sub).__name__)
            return
        if dict(sub.meta) != dict(ds.meta):
            r.bad(["meta"], f"{dict(sub.meta)} vs {dict(ds.meta)}")
            return

        # ---- expected masks (cgs)
        oc = o * fou

        def mask_of(p, f_unit):
            off = p * f_unit - oc[None, :]
            if kind == "sphere":
                rr = np.sqrt(np.sum(off ** 2, axis=1))
                R = size * fsu
                inside = rr < R
                tol = np.abs(rr - R) <= 1e-9 * R
                if case["exact"]:
                    tol[:] = False        # integer data in one unit: no rounding, r == R is outside
                return inside, tol
            half = np.array([size * a * fsu * 0.5 for a in case["aspect"]])
            inside = np.all(np.abs(off) <= half[None, :], axis=1)
            tol = np.any(np.abs(np.abs(off) - half[None, :]) <= 1e-9 * half[None, :], axis=1)
            if case["exact"]:
                tol[:] = False
            return inside, tol

        m_mesh, t_mesh = mask_of(pm, fpu)
        expect = {"mesh": (m_mesh, t_mesh)} if with_mesh else {}
        if case["with_part"]:
            expect["part"] = mask_of(pp, fpp)
        if case["extra_same"]:
            expect["extra"] = (m_mesh, t_mesh)
        mixed_units = len({case["pu"], case["ou"], case["su"]}) >= 2
        partial = any(0 < m.sum() < len(m) for m, _ in expect.values())
        r.nontrivial(partial and mixed_units)
        r.label("kind_" + kind, "region_" + case["region"], f"nvec_{nvec}")
        if case["exact"]:
            r.label("exact_boundary_data")
            on_b = False
            for g, (m, t) in expect.items():
                p = pm if g != "part" else pp
                off = p - o[None, :]
                if kind == "sphere":
                    on_b |= bool(np.any(np.sum(off ** 2, axis=1) == size ** 2))
                else:
                    hv = np.array([size * a * 0.5 for a in case["aspect"]])
                    for ax in range(3):
                        others = [a2 for a2 in range(3) if a2 != ax]
                        within = np.all(np.abs(off[:, others]) <= hv[None, others], axis=1)
                        for sgn, nm in ((-1.0, "lo"), (1.0, "hi")):
                            if np.any(within & (off[:, ax] == sgn * hv[ax])):
                                # a row on this face and inside on the other two axes: it decides this comparison
                                on_b = True
                                r.label(f"face_{'xyz'[ax]}_{nm}")
            if on_b:
                r.label("row_exactly_on_boundary")
        if "other" in sub.keys():
            r.bad(["group-without-positions-kept"], "group of another length without positions is in the result")
            return
        in_bufs = _buffers(ds)
        for g, (m, t) in expect.items():
            if t.any():
                r.label("tolerant_rows")
            lo, hi = m & ~t, m | t
            if g not in sub.keys():
                if lo.any():
                    r.bad(["group-missing", g, kind], f"group {g} absent but {int(lo.sum())} rows are inside")
                    return
                continue
            if not hi.any():
                r.bad(["empty-group-kept", g], f"group {g} present but no row is inside")
                return
            sg = sub[g]
            if list(sg.keys()) != list(ds[g].keys()):
                r.bad(["members", g], f"{list(sg.keys())} vs {list(ds[g].keys())}")
                return
            # identify which rows were selected via a member that encodes the row index
            key = {"mesh": "density", "part": "mass", "extra": "temperature"}[g]
            base = {"mesh": 0.5, "part": 100.0, "extra": 10.0}[g]
            rows = np.round(np.asarray(sg[key].values, dtype=np.float64) - base).astype(int)
            got = np.zeros(len(m), dtype=bool)
            if len(rows) != len(set(rows.tolist())) or np.any(rows < 0) or np.any(rows >= len(m)):
                r.bad(["rows-duplicated-or-invented", g], f"row ids {rows.tolist()[:10]}")
                return
            got[rows] = True
            wrong = (got & ~hi) | (~got & lo)
            if wrong.any():
                i = int(np.argmax(wrong))
                kindw = "row-outside-kept" if got[i] else "row-inside-dropped"
                exact_b = case["exact"]
                r.bad([kindw, kind, "exact-boundary" if exact_b and not (lo[i] or not hi[i]) else "interior"],
                      f"group {g} row {i}: kept={bool(got[i])} expected inside={bool(m[i])}; units pos={case['pu']} "
                      f"origin={case['ou']} size={case['su']} size={size!r}")
                return
            for k in ds[g].keys():
                src, dst = ds[g][k], sg[k]
                sa = list(src._xyz.values()) if isinstance(src, osyris.Vector) else [src]
                da = list(dst._xyz.values()) if isinstance(dst, osyris.Vector) else [dst]
                if type(src) is not type(dst) or len(sa) != len(da):
                    r.bad(["member-type", g, k], f"{type(dst).__name__}")
                    return
                for a, b in zip(sa, da):
                    if b.unit != a.unit or b.dtype != a.dtype or not np.array_equal(np.asarray(b.values), np.asarray(a.values)[rows]):
                        r.bad(["member-misaligned", g, k], f"member {k} of group {g} is not the input indexed by the mask")
                        return
                    if any(np.shares_memory(b._array, ib) for ib in in_bufs):
                        r.bad(["shares-buffer", g, k], "result shares memory with the input dataset")
                        return
                if dst.name != k:
                    r.bad(["member-name", g, k], f"{dst.name!r}")
                    return

    run_region(o, size)
    if case.get("second") and not r.records:
        # a second extraction from the same dataset, with another region
        r.label("second_extraction")
        if case["exact"]:
            o2 = o + 1.0
            size2 = size + 2.0
        else:
            o2 = -o * 0.7
            size2 = size * 1.7
        run_region(o2, size2)


def subs(ctx):
    return [Sub("extract", extract, strategy=case_st(), quick=500, thorough=4000,
                required={"kind_box": 0.2, "kind_sphere": 0.4, "row_exactly_on_boundary": 0.05, "dataset_without_mesh": 0.08,
                          "second_extraction": 0.2, "origin_outside_extent_on_one_axis": 0.1, "face_x_lo": 0.01, "face_x_hi": 0.01, "face_y_lo": 0.01, "face_y_hi": 0.01,
                          "face_z_lo": 0.01, "face_z_hi": 0.01})]
