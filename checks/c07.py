"""C07 - Comparisons and logical operators compare physical quantities (DESIGN.md C07)."""
import warnings

import numpy as np
from hypothesis import strategies as st

from vlib import env
from vlib import strategies as vs
from vlib import unitmodel as um
from vlib.harness import Sub

PROPERTY = "C07"
RULE = ("exact cases: int64 Arrays of neighbouring integers around 0, 2**53, 2**60, 2**62 compared (six operators) with an Array, "
        "Quantity, ndarray, numpy or python integer of the same unit, or standing on the right of an ndarray / numpy integer "
        "(unscaled dimensionless data); oracle = python integer comparison.  comparison cases: six operators x rhs kind (Array, python number, numpy scalar float64/float32/int64, ndarray, Quantity with "
        "ndarray or python-scalar magnitude) x dtypes x "
        "broadcast shape pairs x unit pairs (same / compatible-different incl. scaled dimensionless such as cm/m, "
        "percent / incompatible); rhs values engineered around equality after conversion: b = a*ratio*(1+d), "
        "d in {0, +-1e-3, +-0.5, -2 (opposite sign), 1e6} element-wise, NaN / +-inf on either side.  Oracle: numpy comparison of the two physical values in cgs from the "
        "independent unit model, asserted where they differ by more than the tolerance (exact ties only when both "
        "operands are bit-identical in the same unit); result must be a dimensionless bool Array of the broadcast "
        "shape; incompatible dimensions must raise.  logical cases: & | ^ ~ on bool Arrays of generated shapes plus "
        "the exhaustive 2x2 truth tables.  non-trivial = the verdict differs from comparing raw magnitudes "
        "(the conversion mattered) in at least one element; distinct = distinct canonical JSON.")
ASSUMPTIONS = [
    "the Array is the left operand (the statement: 'the right operand is converted to the left operand's unit'); an ndarray, "
    "numpy scalar or Quantity on the left is dispatched by numpy / pint and is not generated - except, in the exact "
    "sub-check, an ndarray / numpy integer on the left of an unscaled dimensionless integer Array, where no unit is involved "
    "and the comparison is plain numpy",
    "a bare number / ndarray is a dimensionless quantity: comparing it with a dimensional Array must raise",
    "elements whose physical values differ by less than 1e-9 (64 eps for float32 operands: 1e-5) relative are not judged",
]
osyris = None
CMP = ["<", "<=", ">", ">=", "==", "!="]
NPOP = {"<": np.less, "<=": np.less_equal, ">": np.greater, ">=": np.greater_equal, "==": np.equal, "!=": np.not_equal}


def prepare(ctx):
    global osyris
    osyris = env.import_osyris()


@st.composite
def cmp_case_st(draw):
    op = draw(st.sampled_from(CMP))
    sa, sb = draw(vs.shape_pairs())
    ua, ub, rel = draw(vs.unit_pairs())
    dta = draw(st.sampled_from(vs.DTYPES))
    a = draw(vs.array_specs(units=[ua], dtypes=[dta], shape=sa, specials=True))
    bk = draw(st.sampled_from(["A", "A", "A", "Q", "num", "npf", "nd"]))
    dtb = draw(st.sampled_from(vs.DTYPES))
    if bk in ("num", "npf", "nd"):
        # bare numbers: only meaningful against dimensionless lhs; else it must raise
        if draw(st.integers(0, 3)) > 0:
            ua = draw(st.sampled_from(um.FAMILIES["dimensionless"]))
            a["unit"] = ua
        ub = "dimensionless"
    fa, fb = um.parse(a["unit"]), um.parse(ub)
    compatible = um.same_dims(fa, fb)
    nb = vs.nelem(sb)
    # engineer b from a where possible (same number of elements or broadcastable by tiling)
    avals = [v for v in vs.decode_vals(a["vals"])] or [1.0]
    bvals = []
    for i in range(nb):
        src = avals[i % len(avals)]
        if isinstance(src, float) and not np.isfinite(src):
            src = 1.0
        d = draw(st.sampled_from([0.0, 0.0, 1e-3, -1e-3, 0.5, -0.5, -2.0, 1e6]))     # -2.0: the opposite sign
        ratio = fa[0] / fb[0] if compatible else 1.0
        v = float(src) * ratio * (1.0 + d)
        if dtb.startswith("int"):
            v = int(round(v)) if abs(v) < 2 ** 30 else 1
        else:
            v = float(np.dtype(dtb).type(v))
            if not np.isfinite(v):
                v = 1.0
            if dtb == "float64" and draw(st.integers(0, 24)) == 0:
                v = draw(st.sampled_from(["nan", "inf", "-inf"]))          # non-finite right operands are converted too
        bvals.append(v)
    if bk in ("num", "npf"):
        v0 = bvals[0] if bvals else 1.0
        if isinstance(v0, str):
            v0 = 1.0
        b = {"k": bk, "v": v0}
        if bk == "num" and draw(st.integers(0, 4)) == 0:
            # exact python numbers outside numpy's numeric types: an int beyond 64 bits, a Fraction (not Decimal, which
            # refuses to mix with floats and to be compared with NaN: python's rules, nothing osyris decides)
            how = draw(st.sampled_from(["bigint", "fraction"]))
            if how == "bigint":
                b["v"] = (2 ** 70) * (1 if float(v0) >= 0 else -1) + int(round(float(v0))) % 1000
            else:
                b["v"] = float(v0)
                b["as"] = how
            b["exact_python_number"] = how
        if bk == "npf":
            b["v"] = float(b["v"])
            b["dt"] = draw(st.sampled_from(["float64", "float64", "float32", "int64"]))
            if b["dt"] == "int64":
                b["v"] = int(round(b["v"])) if abs(b["v"]) < 2 ** 30 else 1
            elif b["dt"] == "float32" and not np.isfinite(np.float32(b["v"])):
                b["v"] = 1.0
    elif bk == "nd":
        b = {"k": "nd", "dtype": dtb, "shape": sb, "vals": bvals}
    else:
        b = {"k": bk, "dtype": dtb, "shape": sb, "vals": bvals, "unit": ub}
        if bk == "Q" and not sb and draw(st.booleans()):
            b["pyscalar"] = True                      # arr < 150 * units("cm"): the magnitude is a plain python number
    return {"op": op, "a": a, "b": b}


def compare(case, r):
    op = case["op"]
    a = vs.build(case["a"], osyris)
    b = vs.build(case["b"], osyris)
    av, au = vs.model_of(case["a"])
    bv, bu = vs.model_of(case["b"])
    r.label("op_" + op, "bkind_" + case["b"]["k"])
    if case["b"].get("exact_python_number"):
        r.label("rhs_exact_python_number_" + case["b"]["exact_python_number"])
    with warnings.catch_warnings(), np.errstate(all="ignore"):
        warnings.simplefilter("ignore")
        try:
            res = {"<": lambda: a < b, "<=": lambda: a <= b, ">": lambda: a > b, ">=": lambda: a >= b,
                   "==": lambda: a == b, "!=": lambda: a != b}[op]()
            raised = None
        except Exception as e:
            raised, res = e, None
    if not um.same_dims(au, bu):
        r.label("incompatible")
        if raised is None:
            r.bad(["incompatible-no-raise", op, "bkind=" + case["b"]["k"]],
                  f"[{case['a']['unit']}] {op} {case['b']} returned {res!r}")
        return
    if raised is not None:
        r.bad(["raises", op, type(raised).__name__], f"{raised!r}; a={case['a']} b={case['b']}")
        return
    if res is NotImplemented or not isinstance(res, osyris.Array):
        r.bad(["result-type", op], f"{type(res).__name__}")
        return
    want_shape = np.broadcast_shapes(tuple(case["a"]["shape"]), tuple(case["b"].get("shape", [])))
    if tuple(res.shape) != tuple(want_shape):
        r.bad(["shape", op], f"got {res.shape} want {want_shape}")
        return
    if res.dtype != np.dtype(bool):
        r.bad(["dtype-not-bool", op], f"{res.dtype}")
        return
    if res.unit != osyris.units("dimensionless"):
        r.bad(["bool-result-has-unit", op], f"{res.unit}")
    with np.errstate(all="ignore"):
        ac = np.broadcast_to(um.to_cgs(av, au), want_shape)
        bc = np.broadcast_to(um.to_cgs(bv, bu), want_shape)
        want = NPOP[op](ac, bc)
        lowp = any(np.dtype(s.get("dtype", s.get("dt", "float64"))) == np.float32 for s in (case["a"], case["b"]))
        tol = 1e-5 if lowp else 1e-9
        decidable = np.abs(ac - bc) > tol * np.maximum(np.abs(ac), np.abs(bc))
        decidable |= np.isnan(ac) | np.isnan(bc) | np.isinf(ac) | np.isinf(bc)     # an infinity compares exactly
        # exact ties: same unit and identical raw values
        same_unit = abs(au[0] / bu[0] - 1) == 0
        if same_unit:
            decidable |= (np.broadcast_to(av, want_shape) == np.broadcast_to(bv, want_shape))
        raw = NPOP[op](np.broadcast_to(av, want_shape), np.broadcast_to(bv, want_shape))
    got = np.asarray(res.values)
    wrong = decidable & (got != want)
    r.nontrivial(bool(np.any(decidable & (raw != want))))
    if not same_unit:
        r.label("different_units")
    if np.any(wrong):
        i = int(np.argmax(wrong.ravel()))
        r.bad(["verdict", op], f"element {i}: {np.ravel(ac)[i]!r} {op} {np.ravel(bc)[i]!r} (cgs) gave {np.ravel(got)[i]}; "
              f"a={case['a']} b={case['b']}")


# ------------------------------------------------------------------ logical
@st.composite
def logic_case_st(draw):
    op = draw(st.sampled_from(["&", "|", "^", "~"]))
    sa, sb = draw(vs.shape_pairs())
    a = {"k": "A", "dtype": "bool", "shape": sa, "vals": draw(st.lists(st.booleans(), min_size=vs.nelem(sa),
                                                                         max_size=vs.nelem(sa))), "unit": "dimensionless"}
    bk = draw(st.sampled_from(["A", "A", "nd", "num"]))
    if bk == "num":
        b = {"k": "num", "v": draw(st.booleans())}
    else:
        b = {"k": bk, "dtype": "bool", "shape": sb,
             "vals": draw(st.lists(st.booleans(), min_size=vs.nelem(sb), max_size=vs.nelem(sb)))}
        if bk == "A":
            b["unit"] = "dimensionless"
    return {"op": op, "a": a, "b": b}


def logic(case, r):
    op = case["op"]
    a = vs.build(case["a"], osyris)
    b = vs.build(case["b"], osyris)
    av = vs.np_values(case["a"])
    bv = np.asarray(case["b"]["v"]) if case["b"]["k"] == "num" else vs.np_values(case["b"])
    r.label("op_" + op)
    try:
        if op == "&":
            res, want = a & b, np.logical_and(av, bv)
        elif op == "|":
            res, want = a | b, np.logical_or(av, bv)
        elif op == "^":
            res, want = a ^ b, np.logical_xor(av, bv)
        else:
            res, want = ~a, np.logical_not(av)
    except Exception as e:
        r.bad(["logic-raises", op, type(e).__name__], f"{e!r}; {case}")
        return
    r.nontrivial(av.size > 1 or case["b"]["k"] != "A")
    if not isinstance(res, osyris.Array):
        r.bad(["logic-result-type", op], type(res).__name__)
        return
    if res.dtype != np.dtype(bool) or res.unit != osyris.units("dimensionless"):
        r.bad(["logic-result-dtype-unit", op], f"{res.dtype} {res.unit}")
    got = np.asarray(res.values)
    if got.shape != want.shape or not np.array_equal(got, want):
        r.bad(["logic-values", op], f"got {got.tolist()} want {want.tolist()}; {case}")


def _truth_tables():
    out = []
    for op in ["&", "|", "^"]:
        for bk in ["A", "nd"]:
            b = {"k": bk, "dtype": "bool", "shape": [4], "vals": [False, True, False, True]}
            if bk == "A":
                b["unit"] = "dimensionless"
            out.append({"op": op, "a": {"k": "A", "dtype": "bool", "shape": [4], "vals": [False, False, True, True],
                                        "unit": "dimensionless"}, "b": b})
        for x in (False, True):
            for y in (False, True):
                out.append({"op": op, "a": {"k": "A", "dtype": "bool", "shape": [], "vals": [x], "unit": "dimensionless"},
                            "b": {"k": "A", "dtype": "bool", "shape": [], "vals": [y], "unit": "dimensionless"}})
    for x in (False, True):
        out.append({"op": "~", "a": {"k": "A", "dtype": "bool", "shape": [], "vals": [x], "unit": "dimensionless"},
                    "b": {"k": "num", "v": False}})
    out.append({"op": "~", "a": {"k": "A", "dtype": "bool", "shape": [2], "vals": [False, True], "unit": "dimensionless"},
                "b": {"k": "num", "v": False}})
    return out


# ------------------------------------------------------------------ exact integers; a numpy object on the left
exact_case_st = st.fixed_dictionaries({
    "op": st.sampled_from(["<", "<=", ">", ">=", "==", "!="]),
    # integers beyond 2**53 (identifiers, Hilbert keys): neighbours are distinct numbers only as integers
    "base": st.sampled_from([2 ** 53, 2 ** 60, 2 ** 62, -(2 ** 55), 0]),
    "ka": st.lists(st.integers(0, 6), min_size=1, max_size=5),
    "kb": st.lists(st.integers(0, 6), min_size=5, max_size=5),
    "unit": st.sampled_from(["dimensionless", "m", "g"]),
    "bk": st.sampled_from(["A", "A", "num", "npi", "Q", "nd"]),
    # the Array on the right of a numpy array / numpy scalar (unscaled dimensionless data: numbers are numbers)
    "array_on_the_right": st.booleans(),
})


def exact_compare(case, r):
    import operator
    op = {"<": operator.lt, "<=": operator.le, ">": operator.gt, ">=": operator.ge, "==": operator.eq, "!=": operator.ne}[case["op"]]
    n = len(case["ka"])
    ai = [case["base"] + k for k in case["ka"]]
    bk = case["bk"]
    bi = [case["base"] + k for k in case["kb"][: (1 if bk in ("num", "npi") else n)]]
    unit = case["unit"]
    swap = case["array_on_the_right"] and bk in ("nd", "npi")
    if swap or bk in ("num", "npi", "nd"):
        unit = "dimensionless"
    a = osyris.Array(values=np.array(ai, dtype=np.int64), unit=unit)
    if bk == "A":
        b = osyris.Array(values=np.array(bi, dtype=np.int64), unit=unit)
    elif bk == "Q":
        b = np.array(bi, dtype=np.int64) * osyris.units(unit)
    elif bk == "nd":
        b = np.array(bi, dtype=np.int64)
    elif bk == "npi":
        b = np.int64(bi[0])
    else:
        b = int(bi[0])
    r.label("exact_" + bk, "op_" + case["op"])
    if swap:
        r.label("numpy_object_on_the_left")
    big = abs(case["base"]) >= 2 ** 53
    r.nontrivial(big)
    want = [bool(op(y, x) if swap else op(x, y)) for x, y in zip(ai, bi * (n if len(bi) == 1 else 1))]
    with warnings.catch_warnings(), np.errstate(all="ignore"):
        warnings.simplefilter("ignore")
        try:
            res = op(b, a) if swap else op(a, b)
        except Exception as e:
            r.bad(["exact", "raises", case["op"], bk, type(e).__name__], f"{e!r}; case {case}")
            return
    got = np.asarray(getattr(res, "values", res))
    if got.shape != (n,) or got.dtype != np.dtype(bool) or got.tolist() != want:
        r.bad(["exact", "numpy-object-on-the-left" if swap else "values", case["op"], bk],
              f"{'b op a' if swap else 'a op b'} with a = {ai} [{unit}] (int64), b = {bi} ({bk}): got {got.tolist()}, the integers give {want}")


def subs(ctx):
    return [
        Sub("exact_compare", exact_compare, strategy=exact_case_st, quick=600, thorough=6000,
            required={"numpy_object_on_the_left": 0.1}),
        Sub("truth_tables", logic, cases=_truth_tables()),
        Sub("compare", compare, strategy=cmp_case_st(), quick=3000, thorough=20000,
            required={"incompatible": 0.05, "different_units": 0.15}),
        Sub("logic", logic, strategy=logic_case_st(), quick=600, thorough=4000),
    ]
