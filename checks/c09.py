"""C09 - Vector operations are the component-wise lifting of Array operations (DESIGN.md C09)."""
import warnings

import numpy as np
from hypothesis import strategies as st

from vlib import env
from vlib import strategies as vs
from vlib import unitmodel as um
from vlib.harness import Sub

PROPERTY = "C09"
RULE = ("lifting cases: Vector (1-3 components, four dtypes, 0-d/1-d/2-d) x operator (+ - * / six comparisons, & | ^ ~, "
        "unary -, ** k, numpy functions sqrt/abs/negative/sum/mean/concatenate/...) x rhs kind (Vector of same or "
        "different component count, Array, python number, numpy scalar (float64/float32/int64/int32), ndarray, Quantity, "
        "or one of the Vector's own components for in-place * and /; numpy functions with a second distinct Vector / Array / "
        "number argument (add subtract multiply divide less maximum concatenate power sum(axis positional)); reflected forms k+v k-v k*v k/v "
        "and Array op v) x unit pairs; oracle = the same operation on each component Array (differential: equal values, "
        "unit, dtype, shape, or both raise); different component counts must be rejected (and an in-place form must then leave the Vector unchanged).  product cases: norm, "
        "dot, cross compared as physical quantities with numpy on cgs values from the independent unit model, plus the "
        "algebraic laws a.b=b.a, axb=-bxa, a.(axb)=0, |axb|^2+(a.b)^2=|a|^2|b|^2 with operands in different compatible "
        "units at 50%.  norm histories: norm interleaved with in-place updates of the Vector, of single components, component assignment, mutation of a returned norm and unit conversion; after each step norm must equal sqrt(sum components^2).  non-trivial = operands in different compatible units, or <3 components, or a non-Vector rhs.")
ASSUMPTIONS = [
    "component Array operations are the reference for the lifting law (they are decided by C02/C07/C10)",
    "dot/cross are generated with equal component counts and equal shapes; cross with 3 components",
    "a pint Quantity, bare ndarray or numpy scalar on the left of a Vector is not generated (pint/numpy dispatch decides "
    "those; the property quantifies over right-hand operand kinds)",
    "'rejected' (different component counts) means any exception; the exception type is not judged",
]
osyris = None


def prepare(ctx):
    global osyris
    osyris = env.import_osyris()


ARITH = ["+", "-", "*", "/"]
CMPS = ["<", "<=", ">", ">=", "==", "!="]
FUNCS = ["sqrt", "abs", "negative", "sum", "mean", "concatenate", "square_mul", "isnan", "min_method", "max_method"]
FUNCS2 = ["add", "subtract", "multiply", "divide", "less", "maximum", "concatenate2", "power2", "sum_axis_pos"]


def op_is_muldiv(op):
    return op in ("*", "/")


@st.composite
def lift_case_st(draw):
    group = draw(st.sampled_from(["arith", "arith", "cmp", "logic", "unary", "func", "func2", "reflected", "inplace"]))
    nvec = draw(st.integers(1, 3))
    sa, sb = draw(vs.shape_pairs())
    # a right operand with as many entries as the Vector has components (it broadcasts against every component like
    # any other array: it is not "one number per component")
    nvec_long = draw(st.integers(0, 7)) == 0
    if nvec_long:
        sa, sb = draw(st.sampled_from([[], [2, nvec], [3, nvec]])), [nvec]
    ua, ub, rel = draw(vs.unit_pairs())
    dt = draw(st.sampled_from(vs.DTYPES))
    if group == "logic":
        # masks, or integer / float flags (numpy's logical functions take any non-zero value as true)
        ldt = draw(st.sampled_from(["bool", "bool", "bool", "int64", "float64"]))
        lval = st.booleans() if ldt == "bool" else (st.integers(0, 3) if ldt == "int64" else st.sampled_from([0.0, 1.0, 2.0, 0.5]))

        def bvec(n, shape):
            return {"k": "V", "comps": [{"k": "A", "dtype": ldt, "shape": shape, "unit": "dimensionless",
                                         "vals": draw(st.lists(lval, min_size=vs.nelem(shape),
                                                               max_size=vs.nelem(shape)))} for _ in range(n)]}
        op = draw(st.sampled_from(["&", "|", "^", "~"]))
        v = bvec(nvec, sa)
        n2 = nvec if draw(st.integers(0, 4)) else draw(st.integers(1, 3))
        rk = draw(st.sampled_from(["V", "V", "A", "nd", "num"]))
        if rk == "V":
            rhs = bvec(n2, sb)
        elif rk == "num":
            rhs = {"k": "num", "v": draw(lval)}
        else:
            rhs = {"k": rk, "dtype": ldt, "shape": sb, "unit": "dimensionless",
                   "vals": draw(st.lists(lval, min_size=vs.nelem(sb), max_size=vs.nelem(sb)))}
        return {"group": group, "op": op, "v": v, "rhs": rhs, "logic_dtype": ldt}
    v = draw(vs.vector_specs(units=[ua], dtypes=[dt], shape=sa, nvec=nvec, specials=(group == "cmp")))   # NaN compares false
    if group == "cmp" and dt.startswith("float") and draw(st.integers(0, 2)) == 0:
        # one entry of one component is NaN (every comparison with it is false, also <= and >=)
        c = v["comps"][draw(st.integers(0, nvec - 1))]
        if c["vals"]:
            c["vals"][draw(st.integers(0, len(c["vals"]) - 1))] = "nan"
    case = {"group": group, "v": v}
    if group == "unary":
        case["op"] = draw(st.sampled_from(["neg", "pow"]))
        if case["op"] == "pow":
            case["k"] = draw(st.sampled_from([0, 1, 2, 3, 0.5] if dt.startswith("int") else [-1, 0, 1, 2, 3, 0.5]))
        return case
    if group == "func":
        case["op"] = draw(st.sampled_from(FUNCS))
        case["axis"] = draw(st.sampled_from([None, None, 0]))
        return case
    dtb = draw(st.sampled_from(vs.DTYPES))
    if group == "func2":
        # numpy functions called with the Vector and a second, distinct argument
        case["op"] = draw(st.sampled_from(FUNCS2))
        if case["op"] in ("power2", "sum_axis_pos"):
            return case
        rk = draw(st.sampled_from(["V", "V", "V", "A", "num"])) if case["op"] != "concatenate2" else "V"
        if rk == "V":
            n2 = nvec if draw(st.integers(0, 3)) else draw(st.integers(1, 3))
            case["rhs"] = draw(vs.vector_specs(units=[ub], dtypes=[dtb], shape=sb if case["op"] != "concatenate2" else sa,
                                               nvec=n2))
        elif rk == "A":
            case["rhs"] = draw(vs.array_specs(units=[ub], dtypes=[dtb], shape=sb))
        else:
            case["rhs"] = {"k": "num", "v": draw(st.sampled_from([2, 3.5, -1.25]))}
        return case
    if group == "reflected":
        case["op"] = draw(st.sampled_from(ARITH))
        rk = draw(st.sampled_from(["num", "num", "A"]))
        if rk == "num":
            val = draw(st.sampled_from([2, 3.5, -1.25, 10]))
            case["rhs"] = {"k": "num", "v": val}
            if case["op"] in "+-":
                # number +- dimensional vector must raise; keep some dimensionless
                if draw(st.booleans()):
                    for c in v["comps"]:
                        c["unit"] = "dimensionless"
        else:
            case["rhs"] = draw(vs.array_specs(units=[ub], dtypes=[dtb], shape=sb))
        return case
    case["op"] = draw(st.sampled_from(ARITH if group in ("arith", "inplace") else CMPS))
    rk = draw(st.sampled_from(["V", "V", "V", "A", "num", "npf", "nd", "Q"]))
    if nvec_long:
        rk = draw(st.sampled_from(["nd", "nd", "A"]))
        case["rhs_has_nvec_entries"] = True
    elif group == "inplace" and draw(st.integers(0, 4)) == 0:
        # a Vector with another number of components: refused, and the left operand as it was
        n2 = draw(st.sampled_from([k for k in (1, 2, 3) if k != nvec]))
        case["rhs"] = draw(vs.vector_specs(units=[ub if case["op"] in "+-" and draw(st.booleans()) else ua], dtypes=[dt], shape=sa, nvec=n2))
        return case
    if group == "inplace" and op_is_muldiv(case["op"]) and draw(st.integers(0, 5)) == 0:
        # the right-hand side is one of the Vector's own components (v *= v.x, v /= v.y)
        case["rhs"] = {"k": "comp", "c": draw(st.integers(0, nvec - 1))}
        return case
    if group == "inplace" and nvec >= 2 and draw(st.integers(0, 5)) == 0:
        # ... or a Vector that wraps the left operand's own components in another order: Vector(v.y, v.x)
        case["rhs"] = {"k": "perm", "p": draw(st.permutations(list(range(nvec))))}
        return case
    if rk == "V":
        # (another number of components must be refused - for in-place operators before anything is updated)
        n2 = nvec if draw(st.integers(0, 2 if group == "inplace" else 5)) else draw(st.integers(1, 3))
        case["rhs"] = draw(vs.vector_specs(units=[ub], dtypes=[dtb], shape=sb, nvec=n2))
    elif rk in ("A", "Q"):
        case["rhs"] = draw(vs.array_specs(kind=rk, units=[ub], dtypes=[dtb], shape=sb))
    elif rk == "nd":
        case["rhs"] = draw(vs.array_specs(kind="nd", dtypes=[dtb], shape=sb))
    else:
        case["rhs"] = {"k": rk, "v": draw(vs.magnitudes("float64", 1, allow_zero=False))[0]}
        if rk == "num" and (draw(st.booleans()) or dt.startswith("int")):
            case["rhs"]["v"] = draw(st.sampled_from([2, 3, 10, -4, 1]))          # a python int stays an integer operand
        if rk == "num" and draw(st.booleans()):
            case["rhs"]["v"] = draw(st.sampled_from([1, 2, -3]))
        if rk == "npf":
            # numpy scalars other than np.float64 are not python float subclasses
            case["rhs"]["dt"] = draw(st.sampled_from(["float64", "float32", "int64", "int32"]))
            if case["rhs"]["dt"].startswith("int"):
                case["rhs"]["v"] = draw(st.sampled_from([1, 2, -3, 7]))
        if group == "cmp" and draw(st.booleans()):
            # a bare number only compares with a dimensionless Vector: keep the successful class alive
            du = draw(st.sampled_from(um.FAMILIES["dimensionless"]))
            for c in v["comps"]:
                c["unit"] = du
    return case


def _apply(op, x, y):
    if op == "+":
        return x + y
    if op == "-":
        return x - y
    if op == "*":
        return x * y
    if op == "/":
        return x / y
    if op == "<":
        return x < y
    if op == "<=":
        return x <= y
    if op == ">":
        return x > y
    if op == ">=":
        return x >= y
    if op == "==":
        return x == y
    if op == "!=":
        return x != y
    if op == "&":
        return x & y
    if op == "|":
        return x | y
    if op == "^":
        return x ^ y
    raise ValueError(op)


def _func(name, x, axis):
    kw = {} if axis is None else {"axis": axis}
    if name == "sqrt":
        return np.sqrt(x)
    if name == "abs":
        return np.abs(x)
    if name == "negative":
        return np.negative(x)
    if name == "sum":
        return np.sum(x, **kw)
    if name == "mean":
        return np.mean(x, **kw)
    if name == "isnan":
        return np.isnan(x)
    if name == "square_mul":
        return np.multiply(x, x)
    if name == "min_method":
        return x.min()
    if name == "max_method":
        return x.max()
    raise ValueError(name)


def _func2(name, x, y):
    if name == "concatenate2":
        return np.concatenate([x, y])
    if name == "power2":
        return np.power(x, 2)
    if name == "sum_axis_pos":
        return np.sum(x, 0)
    return getattr(np, name)(x, y)


def _same_array(g, w):
    """Compare two osyris Arrays bit for bit. -> None or reason"""
    if not isinstance(g, osyris.Array):
        return f"component is {type(g).__name__}"
    if g.unit != w.unit:
        return f"unit {g.unit} != {w.unit}"
    if g.shape != w.shape:
        return f"shape {g.shape} != {w.shape}"
    if g.dtype != w.dtype:
        return f"dtype {g.dtype} != {w.dtype}"
    if not np.array_equal(np.asarray(g.values), np.asarray(w.values), equal_nan=(g.dtype.kind == "f")):
        return f"values {np.asarray(g.values).tolist()} != {np.asarray(w.values).tolist()}"
    return None


def _same_quantity(g, w, lowp_in=False, scale=0.0):
    """Reflected forms (Array op Vector, k op Vector) are computed through the Vector's own reflected methods
    (-(v-a), 1/(v/a), result in the Vector's unit): compared as physical quantities with a few ulp."""
    if not isinstance(g, osyris.Array):
        return f"component is {type(g).__name__}"
    gu, wu = um.from_pint(g.unit), um.from_pint(w.unit)
    if not um.same_dims(gu, wu):
        return f"unit {g.unit} vs {w.unit}"
    if g.shape != w.shape:
        return f"shape {g.shape} != {w.shape}"
    lowp = lowp_in or np.dtype(g.dtype) == np.float32 or np.dtype(w.dtype) == np.float32
    rtol = 1e-5 if lowp else 1e-9
    with np.errstate(all="ignore"):
        a, b = um.to_cgs(g.values, gu), um.to_cgs(w.values, wu)
        ok = (np.abs(a - b) <= rtol * (np.maximum(np.abs(a), np.abs(b)) + scale)) | (a == b) | (np.isnan(a) & np.isnan(b))
    if not np.all(ok):
        return f"values {np.asarray(g.values).tolist()} [{g.unit}] != {np.asarray(w.values).tolist()} [{w.unit}]"
    return None


def _iapply(op, x, y):
    if op == "+":
        x += y
    elif op == "-":
        x -= y
    elif op == "*":
        x *= y
    else:
        x /= y
    return x


def inplace_lifting(case, r):
    """v op= rhs must leave v denoting what each component denotes after c op= rhs_c (or both must raise)."""
    op = case["op"]
    v = vs.build(case["v"], osyris)
    ref = vs.build(case["v"], osyris)
    rk = case["rhs"]["k"]
    if rk == "comp":
        # v op= v.<c>: every component must be combined with the value that component had before the statement
        rhs = list(v._xyz.values())[case["rhs"]["c"]]
        rhs_ref = list(ref._xyz.values())[case["rhs"]["c"]].copy()
    elif rk == "perm":
        # the components of v itself (no copies) in another order; the reference combines with their values before
        rhs = osyris.Vector(*[list(v._xyz.values())[j] for j in case["rhs"]["p"]])
        rhs_ref = osyris.Vector(*[list(ref._xyz.values())[j].copy() for j in case["rhs"]["p"]])
        rk = "V"
        r.label("rhs_own_components_permuted")
    else:
        rhs = vs.build(case["rhs"], osyris)
        rhs_ref = rhs
    nvec = len(case["v"]["comps"])
    r.label("group_inplace", f"nvec_{nvec}", "rhs_" + rk)
    if rk == "V" and case["rhs"]["k"] == "V" and len(case["rhs"]["comps"]) != nvec:
        r.label("nvec_mismatch")
        before = [c.values.copy() for c in v._xyz.values()]
        try:
            _iapply(op, v, rhs)
            r.bad(["nvec-mismatch-accepted", "inplace", op], "no exception")
        except Exception:
            # rejected: the Vector must not have been half-updated
            after = [c.values for c in v._xyz.values()]
            if any(not np.array_equal(a, b, equal_nan=True) for a, b in zip(before, after)):
                r.bad(["nvec-mismatch-rejected-after-update", "inplace", op],
                      f"v {op}= rhs raised, but v changed from {[b.tolist() for b in before]} to {[a.tolist() for a in after]}")
        return
    r.nontrivial(rk != "V" or nvec < 3)
    with warnings.catch_warnings(), np.errstate(all="ignore"):
        warnings.simplefilter("ignore")
        want, w_exc = [], None
        for i, c in enumerate(ref._xyz.values()):
            other = list(rhs_ref._xyz.values())[i].copy() if rk == "V" else rhs_ref
            try:
                want.append(_iapply(op, c, other))
            except Exception as e:
                w_exc = e
                break
        try:
            res = _iapply(op, v, rhs.copy() if (rk == "V" and case["rhs"]["k"] == "V") else rhs)
            g_exc = None
        except Exception as e:
            res, g_exc = None, e
    if (g_exc is None) != (w_exc is None):
        r.bad(["raise-mismatch", "inplace", op, "dtype=" + case["v"]["comps"][0]["dtype"]],
              f"v {op}= rhs raised {g_exc!r} but the components {w_exc!r}; {case}")
        return
    if g_exc is not None:
        r.label("both_raise")
        return
    if not isinstance(res, osyris.Vector):
        r.bad(["result-not-vector", "inplace", op], type(res).__name__)
        return
    lowp = "float32" in [case["v"]["comps"][0]["dtype"], case["rhs"].get("dtype")]
    for i, (g, wv) in enumerate(zip(res._xyz.values(), want)):
        why = _same_quantity(g, wv, lowp)
        if why:
            r.bad(["component-differs", "inplace", op], f"after v {op}= rhs component {'xyz'[i]}: {why}; {case}")
            return


def lifting(case, r):
    if case["group"] == "inplace":
        return inplace_lifting(case, r)
    group, op = case["group"], case["op"]
    v = vs.build(case["v"], osyris)
    nvec = len(case["v"]["comps"])
    comps = list(v._xyz.values())
    r.label("group_" + group, f"nvec_{nvec}")
    if case.get("rhs_has_nvec_entries"):
        r.label("rhs_array_with_nvec_entries")
    if case.get("logic_dtype") and case["logic_dtype"] != "bool":
        r.label("logic_on_non_boolean_flags")
    rhs = vs.build(case["rhs"], osyris) if "rhs" in case else None
    rk = case["rhs"]["k"] if "rhs" in case else None
    if rk:
        r.label("rhs_" + rk)

    def expected_per_component():
        out = []
        for i, c in enumerate(comps):
            if group == "unary":
                out.append(-c if op == "neg" else c ** case["k"])
            elif group == "func":
                if op == "concatenate":
                    out.append(np.concatenate([c, c]))
                else:
                    out.append(_func(op, c, case.get("axis")))
            elif group == "func2":
                other = list(rhs._xyz.values())[i] if rk == "V" else rhs
                out.append(_func2(op, c, other))
            elif group == "reflected":
                # a python number has no reflected + and - on Array: the number is a dimensionless quantity
                lhs = osyris.Array(values=rhs) if rk == "num" else rhs
                out.append(_apply(op, lhs, c))
            else:
                if op == "~":
                    out.append(~c)
                else:
                    other = list(rhs._xyz.values())[i] if rk == "V" else rhs
                    out.append(_apply(op, c, other))
        return out

    def actual():
        if group == "unary":
            return -v if op == "neg" else v ** case["k"]
        if group == "func":
            if op == "concatenate":
                return np.concatenate([v, v])
            return _func(op, v, case.get("axis"))
        if group == "func2":
            return _func2(op, v, rhs)
        if group == "reflected":
            return _apply(op, rhs, v)
        if op == "~":
            return ~v
        return _apply(op, v, rhs)

    n2 = len(case["rhs"]["comps"]) if rk == "V" else None
    lowp_in = "float32" in [case["v"]["comps"][0]["dtype"]] + (
        [case["rhs"].get("dtype")] if rk in ("A", "Q", "nd") else [])
    with warnings.catch_warnings(), np.errstate(all="ignore"):
        warnings.simplefilter("ignore")
        try:
            got = actual()
            g_exc = None
        except Exception as e:
            got, g_exc = None, e
        if n2 is not None and n2 != nvec and op != "~":
            r.label("nvec_mismatch")
            r.nontrivial()
            if g_exc is None:
                r.bad(["nvec-mismatch-accepted", group, op], f"{nvec}-vector {op} {n2}-vector returned {got!r}")
            # "rejected" = any exception (the operators raise ValueError today; the type is not part of the property)
            return
        try:
            want = expected_per_component()
            w_exc = None
        except Exception as e:
            want, w_exc = None, e
    ua = case["v"]["comps"][0]["unit"]
    ub = case["rhs"].get("unit") if rk in ("A", "Q") else (case["rhs"]["comps"][0]["unit"] if rk == "V" else None)
    diff_units = ub is not None and ub != ua and um.same_dims(um.parse(ua), um.parse(ub))
    r.nontrivial(diff_units or nvec < 3 or (rk is not None and rk != "V"))
    if diff_units:
        r.label("compatible_different_units")
    if (g_exc is None) != (w_exc is None):
        r.bad(["raise-mismatch", group, op], f"vector op raised {g_exc!r} but component-wise raised {w_exc!r}; {case}")
        return
    if g_exc is not None:
        r.label("both_raise")
        if type(g_exc) is not type(w_exc):
            # refused, but not for the reason the components refuse (e.g. an AttributeError from the dispatch)
            r.bad(["raise-mismatch-type", group, op, type(g_exc).__name__, type(w_exc).__name__],
                  f"vector op raised {g_exc!r}, the component operation raised {w_exc!r}; {case}")
        return
    if not isinstance(got, osyris.Vector):
        r.bad(["result-not-vector", group, op], f"{type(got).__name__}; {case}")
        return
    addsub_scale = 0.0
    if group == "reflected" and op in "+-":
        # sums may cancel: the admissible error scales with the operands, not with the result
        with np.errstate(all="ignore"):
            mags = [np.nanmax(np.abs(um.to_cgs(np.asarray(c.values, dtype=np.float64), um.from_pint(c.unit))), initial=0.0)
                    for c in comps]
            rv = rhs if not isinstance(rhs, (int, float)) else osyris.Array(values=rhs)
            rq = rv if hasattr(rv, "unit") else osyris.Array(rv)
            mags.append(np.nanmax(np.abs(um.to_cgs(np.asarray(rq.values, dtype=np.float64), um.from_pint(rq.unit))), initial=0.0))
        addsub_scale = float(np.nanmax([m for m in mags if np.isfinite(m)] or [0.0]))
    gc = list(got._xyz.values())
    if len(gc) != len(want):
        r.bad(["component-count", group, op], f"{len(gc)} vs {len(want)}")
        return
    for i, (g, w) in enumerate(zip(gc, want)):
        why = _same_quantity(g, w, lowp_in, addsub_scale) if group == "reflected" else _same_array(g, w)
        if why:
            r.bad(["component-differs", group, op], f"component {'xyz'[i]}: {why}; {case}")
            return


# ------------------------------------------------------------------ norm / dot / cross
@st.composite
def prod_case_st(draw):
    what = draw(st.sampled_from(["norm", "dot", "dot", "cross", "cross", "laws"]))
    nvec = 3 if what in ("cross", "laws") else draw(st.integers(1, 3))
    shape = draw(vs.shapes)
    fam = draw(st.sampled_from(["length", "mass", "time", "velocity", "density", "dimensionless", "energy"]))
    ua = draw(st.sampled_from(um.FAMILIES[fam]))
    if draw(st.booleans()):
        ub = draw(st.sampled_from(um.FAMILIES[fam]))
    else:
        ub = draw(st.sampled_from(um.ALL_UNITS))
    dta = draw(st.sampled_from(vs.DTYPES))
    dtb = draw(st.sampled_from(vs.DTYPES))
    if what == "norm" and draw(st.booleans()):
        # element-wise independence: non-finite entries and a wide dynamic range inside one Vector
        a = draw(vs.vector_specs(units=[ua], dtypes=["float64"], shape=[draw(st.integers(2, 5))], nvec=nvec, lo=-140, hi=140,
                                 specials=True))
        return {"what": what, "a": a, "b": a, "wide": True}
    if what == "norm" and draw(st.integers(0, 3)) == 0:
        # integer components whose squares do not fit the storage type
        dti = draw(st.sampled_from(["int32", "int64"]))
        a = draw(vs.vector_specs(units=[ua], dtypes=[dti], shape=shape, nvec=nvec,
                                 int_hi=100000 if dti == "int32" else 4000000000))
        return {"what": what, "a": a, "b": a, "bigint": True}
    mixed = draw(st.integers(0, 3)) == 0
    a = draw(vs.vector_specs(units=[ua], dtypes=[dta], shape=shape, nvec=nvec, lo=-2, hi=2, mixed_dtypes=mixed))
    b = draw(vs.vector_specs(units=[ub], dtypes=[dtb], shape=shape, nvec=nvec, lo=-2, hi=2, mixed_dtypes=mixed))
    return {"what": what, "a": a, "b": b}


def _phys(arr):
    u = um.from_pint(arr.unit)
    return um.to_cgs(arr.values, u), u


def products(case, r):
    what = case["what"]
    a = vs.build(case["a"], osyris)
    b = vs.build(case["b"], osyris)
    av, au = vs.model_of(case["a"])
    bv, bu = vs.model_of(case["b"])
    nvec = len(av)
    ac = [um.to_cgs(x, au) for x in av]
    bc = [um.to_cgs(x, bu) for x in bv]
    ua, ub = case["a"]["comps"][0]["unit"], case["b"]["comps"][0]["unit"]
    compat_diff = ua != ub and um.same_dims(au, bu)
    dts = [c["dtype"] for c in case["a"]["comps"] + case["b"]["comps"]]
    lowp = "float32" in dts
    rtol = 1e-4 if lowp else 1e-9
    r.label("what_" + what, f"nvec_{nvec}")
    if len({c["dtype"] for c in case["a"]["comps"]}) > 1:
        r.label("mixed_component_dtypes")
    if case.get("bigint"):
        r.label("norm_integer_squares_overflow")
    if compat_diff:
        r.label("compatible_different_units")
    r.nontrivial(compat_diff or nvec < 3)
    with warnings.catch_warnings(), np.errstate(all="ignore"):
        warnings.simplefilter("ignore")
        try:
            if what == "norm":
                res = a.norm
                import functools
                want = functools.reduce(np.hypot, ac) if len(ac) > 1 else np.abs(ac[0])     # no under/overflow of squares
                got, gu = _phys(res)
                if not um.same_dims(gu, au):
                    r.bad(["norm", "unit"], f"norm unit {res.unit} for vector in {ua}")
                    return
                if res.unit != a.unit:
                    r.bad(["norm", "not-in-vector-unit"], f"norm unit {res.unit} != {a.unit}")
                ok = np.abs(got - want) <= rtol * np.abs(want) + 0.0
                ok |= (np.isnan(got) & np.isnan(want)) | (got == want)
                anynan = np.any(np.isnan(np.array(ac)), axis=0)
                ok |= anynan & np.isnan(got)          # hypot(inf, nan) is inf, sqrt(inf**2 + nan**2) is nan: both fine
                if case.get("wide"):
                    r.label("norm_wide_or_nonfinite")
                if not np.all(ok):
                    i = int(np.argmin(np.ravel(ok)))
                    sig = ["norm", f"nvec={nvec}", "negative-component" if nvec == 1 else "values"]
                    r.bad(sig, f"norm gave {np.ravel(got)[i]!r}, Euclidean norm is {np.ravel(want)[i]!r} (cgs); a={case['a']}")
                return
            if what == "dot":
                res = a.dot(b)
                want = sum(x * y for x, y in zip(ac, bc))
                scale = sum(np.abs(x * y) for x, y in zip(ac, bc))
                got, gu = _phys(res)
                if not um.same_dims(gu, um.umul(au, bu)):
                    r.bad(["dot", "unit-dims"], f"dot unit {res.unit} for [{ua}].[{ub}]")
                    return
                ok = np.abs(got - want) <= rtol * scale
                if not np.all(ok):
                    i = int(np.argmin(np.ravel(ok)))
                    r.bad(["dot", "value-vs-label"], f"[{ua}].dot([{ub}]) = {np.ravel(res.values)[i]!r} {res.unit} i.e. "
                          f"{np.ravel(got)[i]!r} cgs, true {np.ravel(want)[i]!r}")
                # symmetry
                res2 = b.dot(a)
                g2, gu2 = _phys(res2)
                if not np.all(np.abs(g2 - got) <= rtol * scale):
                    r.bad(["dot", "not-symmetric"], f"a.b={got!r} b.a={g2!r}")
                return
            # cross & laws
            res = a.cross(b)
            want = [ac[1] * bc[2] - ac[2] * bc[1], ac[2] * bc[0] - ac[0] * bc[2], ac[0] * bc[1] - ac[1] * bc[0]]
            na = np.sqrt(sum(x * x for x in ac))
            nb = np.sqrt(sum(x * x for x in bc))
            scale = na * nb
            if not isinstance(res, osyris.Vector) or res.nvec != 3:
                r.bad(["cross", "result-type"], repr(res))
                return
            gcs = []
            for i, c in enumerate(res._xyz.values()):
                g, gu = _phys(c)
                if not um.same_dims(gu, um.umul(au, bu)):
                    r.bad(["cross", "unit-dims"], f"cross unit {c.unit} for [{ua}]x[{ub}]")
                    return
                gcs.append(g)
                if not np.all(np.abs(g - want[i]) <= 4 * rtol * scale):
                    j = int(np.argmax(np.ravel(np.abs(g - want[i]) - 4 * rtol * scale)))
                    r.bad(["cross", "values"], f"[{ua}]x[{ub}] component {'xyz'[i]}: {np.ravel(g)[j]!r} true "
                          f"{np.ravel(want[i])[j]!r} (cgs)")
                    return
            if what == "laws":
                rev = b.cross(a)
                for i, c in enumerate(rev._xyz.values()):
                    g, _ = _phys(c)
                    if not np.all(np.abs(g + gcs[i]) <= 8 * rtol * scale):
                        r.bad(["cross", "not-antisymmetric"], f"component {i}")
                        return
                d1, _ = _phys(a.dot(res))
                if not np.all(np.abs(d1) <= 16 * rtol * na * scale):
                    r.bad(["laws", "a.(axb)!=0"], f"{d1!r} vs scale {na * scale!r}")
                    return
                d, _ = _phys(a.dot(b))
                lhs = sum(g * g for g in gcs) + d * d
                rhs_ = (na * nb) ** 2
                if not np.all(np.abs(lhs - rhs_) <= 32 * rtol * rhs_):
                    r.bad(["laws", "lagrange"], f"|axb|^2+(a.b)^2={lhs!r} |a|^2|b|^2={rhs_!r}; units [{ua}] [{ub}]")
                    return
        except um.UnknownUnit as e:
            raise RuntimeError(f"unit model does not know {e}")
        except Exception as e:
            if what in ("dot", "cross", "laws") and not um.same_dims(au, bu):
                # products of different dimensions are legitimate; an exception here is a violation too
                pass
            r.bad(["raises", what, type(e).__name__], f"{e!r}; a=[{ua}] b=[{ub}] dtypes "
                  f"{case['a']['comps'][0]['dtype']}/{case['b']['comps'][0]['dtype']}")


# ------------------------------------------------------------------ norm under histories of updates
nh_op_st = st.one_of(
    st.just({"o": "norm"}),
    st.fixed_dictionaries({"o": st.just("imul_num"), "v": st.sampled_from([2.0, 0.5, -3.0])}),
    st.fixed_dictionaries({"o": st.just("iadd_self")}),
    st.fixed_dictionaries({"o": st.just("idiv_norm")}),
    st.fixed_dictionaries({"o": st.just("comp_imul"), "c": st.integers(0, 2), "v": st.sampled_from([3.0, -1.0, 0.25])}),
    st.fixed_dictionaries({"o": st.just("comp_assign"), "c": st.integers(0, 2), "v": st.sampled_from([1.0, 7.0, -2.0])}),
    st.fixed_dictionaries({"o": st.just("mutate_result")}),
    st.fixed_dictionaries({"o": st.just("to_unit"), "u": st.sampled_from(["cm", "km", "m"])}),
)


@st.composite
def nh_case_st(draw):
    nvec = draw(st.integers(2, 3))
    v = draw(vs.vector_specs(units=["m"], dtypes=["float64", "float32"], shape=[draw(st.integers(1, 4))], nvec=nvec,
                             allow_zero=False, lo=-1, hi=1))
    return {"v": v, "ops": draw(st.lists(nh_op_st, min_size=2, max_size=8))}


def norm_history(case, r):
    v = vs.build(case["v"], osyris)
    lowp = case["v"]["comps"][0]["dtype"] == "float32"
    rtol = 1e-4 if lowp else 1e-9
    n_updates = 0
    seen_norm_before_update = False
    with warnings.catch_warnings(), np.errstate(all="ignore"):
        warnings.simplefilter("ignore")
        for i, op in enumerate(case["ops"]):
            o = op["o"]
            try:
                comps = list(v._xyz.values())
                if o == "norm":
                    pass
                elif o == "imul_num":
                    v *= op["v"]
                    n_updates += 1
                elif o == "iadd_self":
                    v += v.copy()
                    n_updates += 1
                elif o == "idiv_norm":
                    v /= v.norm
                    n_updates += 1
                elif o == "comp_imul":
                    c = comps[op["c"] % len(comps)]
                    c *= op["v"]
                    n_updates += 1
                elif o == "comp_assign":
                    name = "xyz"[op["c"] % len(comps)]
                    old = getattr(v, name)
                    setattr(v, name, osyris.Array(values=np.full(old.shape, op["v"], dtype=old.dtype), unit=old.unit))
                    n_updates += 1
                elif o == "mutate_result":
                    nn = v.norm
                    nn *= 5.0
                elif o == "to_unit":
                    if um.same_dims(um.from_pint(v.unit), um.parse("cm")):
                        v = v.to(op["u"])
                nrm = v.norm
            except Exception as e:
                r.bad(["norm-history", "raises", o, type(e).__name__], f"step {i}: {e!r}")
                return
            comps = list(v._xyz.values())
            if len({str(c.unit) for c in comps}) == 1:
                want = np.sqrt(sum(np.asarray(c.values, dtype=np.float64) ** 2 for c in comps))
                got = np.asarray(nrm.values, dtype=np.float64)
                if nrm.unit != comps[0].unit:
                    r.bad(["norm-history", "unit"], f"step {i} {o}: norm unit {nrm.unit}, components {comps[0].unit}")
                    return
                ok = (np.abs(got - want) <= rtol * np.abs(want)) | (got == want) | (np.isnan(got) & np.isnan(want))
                if got.shape != want.shape or not np.all(ok):
                    r.bad(["norm-history", "stale-or-wrong"], f"step {i} after {o}: norm {got.tolist()} but the components "
                          f"give {want.tolist()}; ops={case['ops'][:i + 1]}")
                    return
    r.nontrivial(n_updates >= 1)
    if n_updates:
        r.label("has_update")


def subs(ctx):
    return [
        Sub("lifting", lifting, strategy=lift_case_st(), quick=2500, thorough=15000,
            required={"nvec_mismatch": 0.02, "compatible_different_units": 0.05, "group_reflected": 0.05}),
        Sub("products", products, strategy=prod_case_st(), quick=1500, thorough=8000,
            required={"compatible_different_units": 0.15}),
        Sub("norm_history", norm_history, strategy=nh_case_st(), quick=400, thorough=3000,
            required={"has_update": 0.5}),
    ]
