"""C04 - Selective loading equals filtering the full load; CPU pre-selection is sound (DESIGN.md C04)."""
import itertools

import numpy as np
from hypothesis import strategies as st

from vlib import env
from vlib import hilbert_ref
from vlib import ramses_cases as rc
from vlib import ramses_model as rm
from vlib import ramses_select as rs
from vlib.harness import Sub

PROPERTY = "C04"
RULE = ("selective: generated outputs (as C01; 3-D at 75%, Hilbert ordering at 75%, 2-9 CPUs, ownership of every oct by "
        "the Hilbert key of its father cell's centre, adversarial bound keys: uniform / random / clustered / cut at cube "
        "boundaries / tail / head; plus the regimes many_cpus (24-64 CPUs) and deep (levelmax 15-17, refinement chain "
        "towards a coarse cube boundary)) x 3-6 predicates each: open position intervals on a subset of axes (all axes at 70%) placed around "
        "a leaf drawn uniformly or by volume, widths 0.02-8 leaf sizes (so boxes smaller than the leaf they hit occur by "
        "construction), touching the domain edge at 15%, endpoints at (k+0.25|0.75) 2^-levelmax (never at a cell "
        "centre), optionally ANDed with a value predicate.  Oracle: the model's leaf table filtered by the same "
        "predicates with numpy, compared as row multisets with every column; the 'Processing N files' line tells "
        "whether pre-selection restricted.  cpu_list: explicit subsets/permutations -> exactly the rows owned by the "
        "listed CPUs.  curve: exhaustive bijection / adjacency / prefix checks of the reference curve and exhaustive + "
        "generated differential comparison of osyris' _hilbert3d with it.  non-trivial = pre-selection opened fewer "
        "than ncpu files and >=1 row qualifies (cpu_list: a proper subset).")
ASSUMPTIONS = [
    "RAMSES assigns an oct to the CPU whose key range holds the Hilbert key (levelmax+1 bits) of its father cell's centre",
    "the 12-state table of vlib/hilbert_ref.py (frozen copy, validated by curve-structure properties)",
    "predicates are written the documented way (unit-aware comparisons returning Arrays)",
]
osyris = None


def prepare(ctx):
    global osyris
    osyris = env.import_osyris()


@st.composite
def case_st(draw):
    ndims = draw(st.sampled_from([(3,), (3,), (3,), (1, 2)]))
    case = draw(rc.output_cases(ndims=ndims, min_cpu=2, max_cpu=9, with_part=False, with_sink=False, min_levels=1))
    case["ordering"] = draw(st.sampled_from(["hilbert", "hilbert", "hilbert", "planar"]))
    if case["ordering"] == "planar":
        case["owner_by_key"] = False        # a non-Hilbert decomposition: ownership unrelated to the Hilbert keys
    case["key_mode"] = draw(st.sampled_from(["uniform", "random", "random", "tail", "head", "clustered", "cube", "tail"]))
    case["max_cells"] = 2000
    case["use_minus1"] = False
    case["nboundary"] = draw(st.sampled_from([0, 0, 0, 2]))
    if case["ndim"] == 3:
        case["levelmin"] = draw(st.sampled_from([1, 2, 3, 3]))
        case["levelmax"] = case["levelmin"] + draw(st.integers(2, 5) if case["levelmin"] < 3 else st.integers(1, 3))
        case["refine_p"] = draw(st.lists(st.sampled_from([0.05, 0.15, 0.3, 0.5] if case["levelmin"] < 3 else
                                                         [0.02, 0.05, 0.1, 0.3]), min_size=1, max_size=4))
        case["max_cells"] = 3500
    regime = draw(st.sampled_from(["std", "std", "std", "many_cpus", "deep"]))
    case["regime"] = regime
    if regime == "many_cpus" and case["ndim"] == 3:
        # domains as small as a levelmin cube
        case["ncpu"] = draw(st.sampled_from([24, 48, 64]))
        case["levelmin"] = draw(st.sampled_from([2, 3]))
        case["levelmax"] = case["levelmin"] + draw(st.integers(1, 2))
        case["refine_p"] = [draw(st.sampled_from([0.02, 0.05]))]
        case["key_mode"] = draw(st.sampled_from(["uniform", "random"]))
        case["ghost_p"] = draw(st.sampled_from([0.0, 0.1]))
        case["grav"] = False
        case["rt_vars"] = []
        case["nboundary"] = 0
    elif regime == "deep" and case["ndim"] == 3:
        # levels beyond 14, the deepest cells hugging a coarse cube boundary from below
        case["levelmin"] = draw(st.sampled_from([2, 3]))
        case["levelmax"] = draw(st.sampled_from([15, 16, 17, 19, 20, 21, 21, 21]))
        case["refine_p"] = [0.0]
        case["deep_toward"] = [draw(st.sampled_from([0.25, 0.5, 0.75])) for _ in range(3)]
        case["ncpu"] = draw(st.integers(3, 9))
        case["key_mode"] = draw(st.sampled_from(["uniform", "random", "cube"]))
        case["key_format"] = draw(st.sampled_from(["e23.15", "e23.15", None]))
        case["nboundary"] = 0
    if case["ndim"] < 3 and draw(st.integers(0, 3)) > 0:
        # 1-D / 2-D outputs with a Hilbert decomposition: the pre-selection only knows the 3-D curve and must not restrict
        case["ordering"] = "hilbert"
        case.pop("owner_by_key", None)
        case["ncpu"] = max(case["ncpu"], 3)
        case["levelmin"] = max(case["levelmin"], 2)
        case["levelmax"] = max(case["levelmax"], case["levelmin"] + 1)
    preds = []
    for ip in range(draw(st.integers(3, 6))):
        p = {"pos": draw(rs.pos_preds(case["ndim"], case["levelmax"],
                                      around_leaf=draw(st.sampled_from(["leaf", "leaf", "leaf", "abs"]))))}
        if case["ndim"] < 3 and ip == 0:
            # one box per low-dimensional case that is narrow on every existing axis and selects the leaf it sits on
            p["pos"] = dict(draw(rs.pos_preds(case["ndim"], case["levelmax"], around_leaf="leaf")), centred=True, edge=False,
                            rel=draw(st.sampled_from([0.1, 0.3, 0.6, 0.9])), axes="xyz"[: case["ndim"]],
                            shift=[draw(st.floats(-0.4, 0.4)) for _ in range(case["ndim"])])
        if p["pos"]["form"] == "leaf" and draw(st.integers(0, 9)) < 8:
            p["pos"]["axes"] = "xyz"[: case["ndim"]]
            p["pos"]["shift"] = (p["pos"]["shift"] + [0.1, -0.2, 0.3])[: case["ndim"]]
        value_vars = list(case["hydro_vars"]) + (["grav_potential"] if case.get("grav") else []) + list(case.get("rt_vars") or [])
        if draw(st.integers(0, 3)) == 0:
            p["val"] = draw(rs.value_preds(value_vars))
            if draw(st.integers(0, 2)) == 0:
                p.pop("pos")            # a value predicate alone: no bounding box, every file must be read
        preds.append(p)
    case["preds"] = preds
    return case


def selective(case, r):
    m, path, nout = rc.write_case(case, with_decoys=False)
    try:
        exp_all = rm.expected_mesh(m)
        ndim = case["ndim"]
        r.label(f"ndim_{ndim}", "ordering_" + case["ordering"], "keys_" + case["key_mode"], "regime_" + case.get("regime", "std"))
        if case.get("key_format") == "e23.15" and ndim * (case["levelmax"] + 1) >= 50:
            r.label("bound_keys_printed_with_fewer_digits_than_they_have")
        for spec in case["preds"]:
            res = rs.resolve(spec, m, exp_all)
            keep = rs.mask(res, m, exp_all)
            exp = rs.filter_exp(exp_all, keep)
            nq = int(keep.sum())
            sel = rs.build_select(osyris, res, m)
            all_axes = len(res["pos"]) == ndim
            widths = [hi - lo for lo, hi in res["pos"].values()]
            leaf = res.get("leaf")
            if leaf and all_axes and max(widths) <= 0.5 ** leaf["level"] and bool(keep[leaf["index"]]):
                r.label("box_le_leaf")          # a box inside one leaf that selects that leaf
            if not res["pos"]:
                r.label("value_predicate_alone")
            if any(lo < 0 or hi > 1 for lo, hi in res["pos"].values()):
                r.label("touches_edge")
            try:
                ds, out = rc.quiet_load(osyris, nout, path, select={"mesh": sel})
            except Exception as e:
                if nq == 0:
                    r.label("empty_result_raises")
                    continue
                r.bad(["load-raises", type(e).__name__], f"{e!r}; spec={spec} resolved={res}")
                return
            nfiles = rc.files_opened(out)
            restricted = nfiles is not None and nfiles < m.ncpu
            if restricted:
                r.label("restricted")
            if nq > 0 and restricted:
                r.nontrivial()
                r.label("restricted_with_rows")
            if nq == 0:
                if "mesh" in ds.keys() and "level" in ds["mesh"].keys() and len(ds["mesh"]["level"]) > 0:
                    r.bad(["rows-when-none-qualify"], f"spec={spec}")
                    return
                continue
            mesh = ds["mesh"]
            nrows = len(mesh["level"].values) if "level" in mesh.keys() else 0
            if nrows < nq and restricted:
                # which CPUs own the missing rows?
                owners = sorted(set(exp["cpu"].tolist()))
                r.bad(["preselection-dropped-cpu"], f"{nq - nrows} of {nq} qualifying cells lost: {nfiles} of {m.ncpu} files "
                      f"opened; qualifying cells are owned by CPUs {owners}; box {res['pos']} around leaf {leaf}; "
                      f"levelmin={m.levelmin} levelmax={m.levelmax}")
                return
            if nrows != nq:
                r.bad(["row-count"], f"{nrows} rows, {nq} cells satisfy the predicates; spec={spec} files={nfiles}/{m.ncpu}")
                return
            if rc.compare_mesh(osyris, mesh, m, r, exp=exp, tag="selected") is None:
                return
            if int(ds.meta["ncells"]) != nq:
                r.bad(["meta-ncells"], f"{ds.meta['ncells']} != {nq}")
                return
    finally:
        rc.cleanup(path)


@st.composite
def cpu_case_st(draw):
    case = draw(rc.output_cases(min_cpu=2, max_cpu=8, with_part=True, with_sink=False))
    case["max_cells"] = 800
    case["use_minus1"] = False
    lists = []
    for _ in range(draw(st.integers(1, 3))):
        lst = draw(st.lists(st.integers(1, case["ncpu"]), min_size=1, max_size=case["ncpu"], unique=True))
        lists.append(lst)
    case["cpu_lists"] = lists
    # half of the lists are combined with a selection (the user's list must win over the automatic one)
    case["cpu_preds"] = [({"pos": draw(rs.pos_preds(case["ndim"], case["levelmax"], around_leaf="leaf"))}
                          if draw(st.booleans()) else None) for _ in lists]
    for p in case["cpu_preds"]:
        if p:
            p["pos"]["rel"] = max(p["pos"]["rel"], 1.5)
    return case


def cpu_list(case, r):
    m, path, nout = rc.write_case(case, with_decoys=False)
    try:
        exp_all = rm.expected_mesh(m)
        for lst, pred in zip(case["cpu_lists"], case.get("cpu_preds") or [None] * len(case["cpu_lists"])):
            keep = np.isin(exp_all["cpu"], lst)
            kwargs = {}
            if pred:
                res = rs.resolve(pred, m, exp_all)
                keep = keep & rs.mask(res, m, exp_all)
                kwargs["select"] = {"mesh": rs.build_select(osyris, res, m)}
                r.label("cpu_list_with_select")
            exp = rs.filter_exp(exp_all, keep)
            r.nontrivial(len(lst) < m.ncpu)
            if lst != sorted(lst):
                r.label("permuted")
            try:
                ds, out = rc.quiet_load(osyris, nout, path, cpu_list=list(lst), **kwargs)
            except Exception as e:
                if keep.sum() == 0:
                    continue
                r.bad(["cpu-list-raises", type(e).__name__], f"{e!r}; cpu_list={lst}")
                return
            if keep.sum() == 0:
                continue
            mesh = ds["mesh"]
            if len(mesh["level"].values) != int(keep.sum()):
                r.bad(["cpu-list", "row-count"], f"cpu_list={lst}: {len(mesh['level'].values)} rows, the listed CPUs own "
                      f"{int(keep.sum())} leaves")
                return
            if rc.compare_mesh(osyris, mesh, m, r, exp=exp, tag="cpu_list") is None:
                return
            if m.part is not None:
                want = sum(m.part_counts[k - 1] for k in lst)
                if int(ds.meta["nparticles"]) != want:
                    r.bad(["cpu-list", "nparticles"], f"cpu_list={lst}: {ds.meta['nparticles']} particles, expected {want}")
                    return
    finally:
        rc.cleanup(path)


# ------------------------------------------------------------------ the curve itself
def _curve_cases(thorough):
    out = [{"t": "structure", "ndim": nd, "bits": b} for nd in (1, 2, 3) for b in range(1, 6 if thorough else 5)]
    out += [{"t": "osyris_exhaustive", "bits": b} for b in range(1, 5 if thorough else 4)]
    return out


def curve(case, r):
    r.nontrivial(case["bits"] >= 2)
    if case["t"] == "structure":
        probs = hilbert_ref.structure_report(case["ndim"], case["bits"])
        if probs:
            # the reference itself is broken: harness error, not a violation of osyris
            raise RuntimeError(f"reference curve ndim={case['ndim']} bits={case['bits']}: {probs}")
        return
    from osyris.io.hilbert import _hilbert3d

    b = case["bits"]
    n = 1 << b
    pts = np.array(list(itertools.product(range(n), repeat=3)), dtype=np.int64)
    ref = hilbert_ref.hilbert3d(pts[:, 0], pts[:, 1], pts[:, 2], b)
    for (x, y, z), k in zip(pts.tolist(), np.asarray(ref).tolist()):
        got = _hilbert3d(x, y, z, b)
        if int(got) != int(k):
            r.bad(["hilbert3d-differs"], f"_hilbert3d({x},{y},{z},{b}) = {got}, reference {k}")
            return


hilbert_pt_st = st.integers(1, 12).flatmap(lambda b: st.fixed_dictionaries({
    "bits": st.just(b), "x": st.integers(0, (1 << b) - 1), "y": st.integers(0, (1 << b) - 1),
    "z": st.integers(0, (1 << b) - 1)}))


def hilbert_diff(case, r):
    from osyris.io.hilbert import _hilbert3d

    r.nontrivial(case["bits"] >= 3)
    got = _hilbert3d(case["x"], case["y"], case["z"], case["bits"])
    ref = int(hilbert_ref.hilbert3d([case["x"]], [case["y"]], [case["z"]], case["bits"])[0])
    if int(got) != ref:
        r.bad(["hilbert3d-differs"], f"_hilbert3d({case['x']},{case['y']},{case['z']},{case['bits']}) = {got}, reference {ref}")
    # prefix property on osyris' own function
    if case["bits"] > 1:
        coarse = _hilbert3d(case["x"] >> 1, case["y"] >> 1, case["z"] >> 1, case["bits"] - 1)
        if int(got) >> 3 != int(coarse):
            r.bad(["hilbert3d-prefix"], f"key {got} at {case['bits']} bits is not inside the range of its parent cube key {coarse}")


def subs(ctx):
    thorough = ctx.tier == "thorough"
    return [
        Sub("curve", curve, cases=_curve_cases(thorough), shard=False),
        Sub("hilbert_diff", hilbert_diff, strategy=hilbert_pt_st, quick=400, thorough=3000),
        Sub("selective", selective, strategy=case_st(), quick=140, thorough=400,
            required={"restricted_with_rows": 0.06, "box_le_leaf": 0.1, "touches_edge": 0.03, "ordering_planar": 0.1,
                      "value_predicate_alone": 0.05}),
        Sub("cpu_list", cpu_list, strategy=cpu_case_st(), quick=40, thorough=200, required={"cpu_list_with_select": 0.3}),
    ]
