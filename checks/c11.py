"""C11 - Thick maps reduce the sampled column and scale units consistently (DESIGN.md C11)."""
import warnings

import numpy as np
from hypothesis import strategies as st

from checks import c03
from vlib import meshes
from vlib import unitmodel as um
from vlib.harness import Sub

PROPERTY = "C11"
RULE = ("depth samples: a uniform field in a box without holes, slab inside the box, nz from 1 to 100 and random dz: the column sum "
        "is dz and the mean is 1.  C03's generator (3-D meshes only: a 2-D mesh has no normal direction) plus a thickness dz from one pixel to the domain size in a random length "
        "unit (slabs thinner than the cells they cut at ~40%), window given or omitted (10%), resolution int or dict with x, y "
        "and optionally z (a few dicts without x and/or y), and a reduction among sum, mean, min, max, nansum, nanmean, nanmin, "
        "nanmax named at the call or carried by every Layer while the call names another one; a quarter of the cases is repeated "
        "with 1 thread and with 3 threads on permuted cells.  Oracle: depth samples z_k = "
        "-dz/2 + (k+1/2) dz/nz with nz = resolution['z'] if given, else the integer nearest to dz / mean pixel size "
        "(either neighbour accepted near a tie, and n+1 as well where its step is closer to the pixel size than n's); every (i,j,k) sample located by brute force; expected pixel = numpy's "
        "reduction over the column with NaN for missing samples (numpy's own semantics decide when the pixel is missing), "
        "times dz/nz with unit x position unit for sum/nansum, unchanged unit otherwise; compared as physical "
        "quantities; columns containing a face-ambiguous sample are not judged.  non-trivial = >=1 column crosses >=2 "
        "cells and >=1 sample is missing.")
ASSUMPTIONS = c03.ASSUMPTIONS + ["without an explicit depth resolution dz is bounded to 48 pixel sizes (cost bound)","columns with a sample on a cell face (epsilon band) are excluded from the verdict"]
osyris = None


def prepare(ctx):
    global osyris
    c03.prepare(ctx)
    osyris = c03.osyris


def thick_map(case, r):
    m = meshes.build(case["mesh"])
    dg = meshes.datagroup(m, osyris)
    su = c03.setup_map(case, m)
    d = m.d
    omitted = not case["window"]["given"]
    res = case["res"]
    if omitted or case.get("res_form"):
        # the pixel size is then read from the returned grid: at least two pixels per axis
        res = {"x": max(res if isinstance(res, int) else res["x"], 2), "y": max(res if isinstance(res, int) else res["y"], 2)}
        case = dict(case, res=res)
    kw, (n, u, v) = c03.call_kwargs(case, m, su, thick=True)
    # thickness
    nx = res if isinstance(res, int) else res["x"]
    ny = res if isinstance(res, int) else res["y"]
    form = case.get("res_form")
    if omitted:
        # without a window the map spans the cells near the slab: about the domain
        pix = 0.5 * (case["mesh"]["L"] / nx + case["mesh"]["L"] / ny)
    else:
        pix = 0.5 * (su["dx"] / (256 if form in ("y_z", "z_only") else nx) + su["dy"] / (256 if form in ("x_z", "z_only") else ny))
    smed, L = float(np.median(m.size)), case["mesh"]["L"]
    z = case["dz"]
    lo_hi = {"pixel": (pix, 2 * pix), "thin": (0.05 * smed, 0.9 * smed), "cell": (0.9 * smed, 2 * smed),
             "cells": (2 * smed, 8 * smed), "domain": (0.5 * L, 1.5 * L)}[z["cls"]]
    a, b = lo_hi
    b = max(b, a * 1.0001)
    dzw = max(a * (b / a) ** z["frac"], pix)        # the property quantifies over dz >= one pixel
    if case["resz"] is None:
        dzw = min(dzw, 48.0 * pix)                  # cost bound: at most ~48 default depth samples
    pu = case["mesh"]["pos_unit"]
    fz = um.parse(pu)[0] / um.parse(z["unit"])[0]
    kw["dz"] = float(dzw * fz) * osyris.units(z["unit"])
    other_op = {"sum": "mean", "nansum": "nanmean", "mean": "sum", "nanmean": "nansum", "min": "max", "nanmin": "nanmax",
                "max": "min", "nanmax": "nanmin"}[case["op"]]
    if case.get("op_at") == "layer":
        # the Layers carry the reduction; the call names another one, which must not apply to them
        kw["operation"] = other_op
        layers = c03.make_layers(case, dg, operation=case["op"])
        r.label("operation_on_layer")
    else:
        kw["operation"] = case["op"]
        layers = c03.make_layers(case, dg)
    if case["resz"] is not None:
        rs = {"x": nx, "y": ny, "z": case["resz"]} if isinstance(res, int) else dict(res, z=case["resz"])
        if form == "x_z":
            rs.pop("y")
        elif form == "y_z":
            rs.pop("x")
        elif form == "z_only":
            rs = {"z": case["resz"]}
        kw["resolution"] = rs
        if form:
            r.label("resolution_" + form)
    if omitted:
        r.label("window_omitted")
    r.label(f"d{d}", "op_" + case["op"], "dz_" + z["cls"], "resz_given" if case["resz"] is not None else "resz_default")
    if dzw < smed:
        r.label("slab_thinner_than_cells")
    p, exc = c03.run_map(layers, kw)
    if exc is None and (omitted or form):
        # pixel size of the grid that was actually used
        xs_, ys_, _ = c03.pixel_coords(p, case, su, kw)
        if len(xs_) < 2 or len(ys_) < 2:
            r.bad(["pixel-grid", "count"], f"{len(xs_)} x {len(ys_)} pixels for resolution {kw.get('resolution')}")
            return
        pix = 0.5 * (abs(xs_[1] - xs_[0]) + abs(ys_[1] - ys_[0]))
        if dzw < pix * (1 - 1e-9):
            r.label("skipped_dz_below_one_pixel")        # outside the quantifier (dz from one pixel up)
            return
    # expected depth resolution
    if case["resz"] is not None:
        nz_cands = [case["resz"]]
    else:
        q = dzw / pix
        nz_cands = {max(int(np.floor(q + 0.5)), 0), max(int(np.ceil(q - 0.5)), 0), int(round(q))}
        if abs(q - np.floor(q) - 0.5) < 1e-6:
            nz_cands = {int(np.floor(q)), int(np.ceil(q))}
        # "the step as close as possible to the pixel size": |dz/k - pix| is smallest for the integer nearest to q except
        # between 2n(n+1)/(2n+1) and n + 1/2, where n + 1 is closer in step although n is nearer in count: both accepted
        nq = int(np.floor(q))
        if nq >= 1 and q >= 2.0 * nq * (nq + 1) / (2 * nq + 1) - 1e-9:
            nz_cands.add(nq + 1)
        nz_cands = sorted(k for k in nz_cands if k >= 1) or [1]
        if len(nz_cands) * max(nz_cands) > 200:
            nz_cands = nz_cands[:1]
    xs0 = -0.5 * su["dx"] + (np.arange(nx) + 0.5) * su["dx"] / nx
    ys0 = -0.5 * su["dy"] + (np.arange(ny) + 0.5) * su["dy"] / ny

    def columns(nz, xs, ys):
        zs = -0.5 * dzw + (np.arange(nz) + 0.5) * dzw / nz
        nn = n[:d] if d == 3 else np.zeros(d)
        pts = (su["origin"][None, None, None, :] + xs[None, None, :, None] * u[None, None, None, :d]
               + ys[None, :, None, None] * v[None, None, None, :d] + zs[:, None, None, None] * nn[None, None, None, :])
        idx, touch = meshes.locate(m, pts.reshape(-1, d))
        idx = idx.reshape(nz, len(ys), len(xs))
        amb = (touch.any(axis=1).reshape(idx.shape)) & (idx < 0)
        return idx, amb

    if exc is not None:
        if not isinstance(exc, RuntimeError):
            r.bad(["raises", type(exc).__name__, f"d{d}"], f"{exc!r}")
            return
        if omitted or form:
            # no window / default pixel counts: the error is legitimate iff the slab misses every cell
            dist = np.abs((m.centre - su["origin"][None, :]) @ n[:d])
            reach = 0.5 * m.size * np.sum(np.abs(n[:d])) + 0.5 * dzw
            if omitted and np.any(dist < reach * (1 - 1e-9)):
                r.bad(["spurious-no-cells-error", f"d{d}", "no-window"], f"RuntimeError although the slab cuts "
                      f"{int(np.sum(dist < reach))} cells")
            else:
                r.label("legit_empty_error")
            return
        idx, amb = columns(nz_cands[0], xs0, ys0)
        if np.any(idx >= 0):
            r.bad(["spurious-no-cells-error", f"d{d}", "slab-thinner" if dzw < smed else "slab-thicker"],
                  f"RuntimeError although {int((idx >= 0).sum())} of {idx.size} samples lie inside cells; dz/cell = "
                  f"{dzw / smed:.3g}, window/cell = {su['ratio']:.3g}")
        else:
            r.label("legit_empty_error")
        return
    if not c03.check_grid(r, p, case, su, kw, "thick"):
        return
    xs, ys, f = c03.pixel_coords(p, case, su, kw)
    fpos = um.parse(pu)[0]
    verdicts = []
    for nz in nz_cands:
        idx, amb = columns(nz, xs, ys)
        verdicts.append((nz, idx, amb))
    problems = None
    matched = verdicts[0]
    for nz, idx, amb in verdicts:
        prob = _judge(case, r, p, m, u, v, idx, amb, dzw / nz, fpos, d)
        if prob is None:
            problems = None
            matched = (nz, idx, amb)          # the depth resolution osyris used: its face samples are the undecided ones
            break
        problems = prob
    inside = verdicts[0][1] >= 0
    crosses = np.array([[len(set(verdicts[0][1][:, j, i][verdicts[0][1][:, j, i] >= 0].tolist())) for i in range(len(xs))]
                        for j in range(len(ys))])
    r.nontrivial(bool((crosses >= 2).any() and (~inside).any()))
    if (crosses >= 2).any():
        r.label("column_crosses_cells")
    if problems is not None:
        sig, detail = problems
        r.bad(sig, detail + f"; nz candidates {nz_cands}, dz/cell {dzw / smed:.3g}, window/cell {su['ratio']:.3g}, op {case['op']}"
              + (", window omitted" if omitted else "") + (", operation on the Layers" if case.get("op_at") == "layer" else ""))
        return
    if case.get("schedule"):
        # any thread schedule: other thread counts and a permuted cell order give the same columns
        r.label("schedule_checked")
        judged = ~matched[2].any(axis=0)
        perm = np.random.RandomState(case["mesh"]["seed"]).permutation(m.n)
        dg2 = dg[perm]
        lkw = {"operation": case["op"]} if case.get("op_at") == "layer" else {}
        for threads, group in ((1, dg), (3, dg2)):
            p2, exc2 = c03.run_map(c03.make_layers(case, group, **lkw), kw, threads=threads)
            if exc2 is not None:
                r.bad(["schedule", "raises", type(exc2).__name__], f"threads={threads}: {exc2!r}")
                return
            for name, l1, l2 in zip(case["layers"], p.layers, p2.layers):
                m1, m2 = np.ma.getmaskarray(l1["data"]), np.ma.getmaskarray(l2["data"])
                v1, v2 = np.ma.getdata(l1["data"]), np.ma.getdata(l2["data"])
                dec = judged[..., None] if name in c03.VEC_MODES else judged
                with np.errstate(all="ignore"):
                    differ = dec & ~m1 & ~m2 & (np.abs(v1 - v2) > 1e-12 * (np.abs(v1) + np.abs(v2)))
                if np.any(dec & (m1 != m2)) or np.any(differ):
                    r.bad(["schedule", "result-differs"], f"threads={threads} permuted={group is dg2}: layer {name} differs on "
                          f"judged columns")
                    return


def _judge(case, r, p, m, u, v, idx, amb, zstep, fpos, d):
    """-> None if the map agrees with the oracle for this depth resolution, else (signature, detail)"""
    nz, ny, nx = idx.shape
    op = case["op"]
    judged = ~amb.any(axis=0)
    if len(p.layers) != len(case["layers"]):
        return ["layer-count"], f"{len(p.layers)} layers returned for {len(case['layers'])} given"
    for name, lay in zip(case["layers"], p.layers):
        cv = c03.cell_layer_values("vec" if name == "vec_stream" else name, m, u, v)
        isvec = name in c03.VEC_MODES
        data = lay["data"]
        mask = np.ma.getmaskarray(data)
        vals = np.ma.getdata(data)
        want_shape = (ny, nx, 3) if isvec else (ny, nx)
        if vals.shape != want_shape:
            return ["layer-shape", name], f"{vals.shape} vs {want_shape}"
        comps = 3 if isvec else 1
        col = np.where(idx[..., None] >= 0, (cv.reshape(len(cv), -1))[np.where(idx >= 0, idx, 0)], np.nan)   # [nz,ny,nx,comps]
        with warnings.catch_warnings(), np.errstate(all="ignore"):
            warnings.simplefilter("ignore")
            red = getattr(np, op)(col, axis=0)               # [ny,nx,comps]
        scale_z = op in ("sum", "nansum")
        if scale_z:
            red = red * zstep
        # the mask follows the NaN pattern of the last component of the last layer; all layers share the pattern
        miss = np.isnan(red[..., -1])
        pm = mask.all(axis=2) if isvec else mask
        bad_mask = judged & (pm != miss)
        if np.any(bad_mask):
            j, i = np.argwhere(bad_mask)[0]
            kind = "masked-although-sampled" if pm[j, i] else "unmasked-although-missing"
            return [kind, f"d{d}", "op=" + op], (f"layer {name} pixel (j={j}, i={i}): masked={bool(pm[j, i])} but the column "
                                                f"holds cells {idx[:, j, i].tolist()} -> {op} = {red[j, i].tolist()}")
        # unit
        try:
            gu = um.from_pint(lay["unit"])
        except um.UnknownUnit as ex:
            raise RuntimeError(f"unit model does not know {ex}")
        base = um.parse(c03.LAYER_UNIT[name])
        wu = um.umul(base, um.parse("cm")) if scale_z else base
        if not um.same_dims(gu, wu):
            return ["unit", "op=" + op], f"layer {name} unit [{lay['unit']}] for operation {op}"
        got = vals.reshape(ny, nx, comps) * gu[0]
        want = red * base[0] * (fpos if scale_z else 1.0)
        sel = judged & ~miss & ~pm
        with np.errstate(all="ignore"):
            cs = c03.cell_layer_scale(name, m)
            mag = np.nansum(np.where(idx >= 0, cs[np.where(idx >= 0, idx, 0)], np.nan), axis=0)[..., None]   # |vec| of the cells
            tol = 1e-9 * mag * base[0] * (zstep * fpos if scale_z else 1.0) + 1e-300
            wrong = sel[..., None] & (np.abs(got - want) > tol)
        if np.any(wrong):
            j, i, c = np.argwhere(wrong)[0]
            return ["column-value", "op=" + op, f"d{d}"], (f"layer {name} pixel (j={j}, i={i}): got {got[j, i, c]!r} expected "
                                                          f"{want[j, i, c]!r} (cgs) from column cells {idx[:, j, i].tolist()}")
    return None


# ------------------------------------------------------------------ number of depth samples
UNIFORM_SPEC = {"d": 3, "seed": 5, "base": 1, "depth": 1, "refine_p": 0.5, "hole_p": 0.0, "subtree_hole_p": 0.0, "L": 1.0,
                "corner": [0.0, 0.0, 0.0], "pos_unit": "cm", "dx_unit": "same", "max_cells": 200}
depth_case_st = st.fixed_dictionaries({
    "nz": st.sampled_from([1, 2, 3, 7, 19, 31, 31, 38, 49, 62, 62, 64, 100]),
    "dz": st.floats(0.05, 0.45),
    "op": st.sampled_from(["sum", "nansum", "mean"]),
    "unit": st.sampled_from(["cm", "mm", "m"]),
})


def depth_samples(case, r):
    """A field that is 1 everywhere in a box without holes, slab inside the box: the column sum is exactly the depth dz
    (nz samples of step dz/nz), the mean is 1, whatever nz and dz are."""
    m = meshes.build(UNIFORM_SPEC)
    dg = meshes.datagroup(m, osyris)
    dg["one"] = osyris.Array(values=np.ones(m.n), unit="g/cm**3")
    fz = um.parse("cm")[0] / um.parse(case["unit"])[0]
    r.label(f"nz_{case['nz']}", "op_" + case["op"])
    r.nontrivial(case["nz"] >= 19)
    kw = dict(direction="z", dx=0.4 * osyris.units("cm"), dz=float(case["dz"] * fz) * osyris.units(case["unit"]),
              origin=osyris.Vector(0.5, 0.5, 0.5, unit="cm"), resolution={"x": 3, "y": 3, "z": case["nz"]}, plot=False,
              operation=case["op"])
    p, exc = c03.run_map([dg.layer("one")], kw)
    if exc is not None:
        r.bad(["depth-samples", "raises", type(exc).__name__], f"{exc!r}; {case}")
        return
    lay = p.layers[0]
    data = np.ma.filled(np.ma.asarray(lay["data"], dtype=np.float64), np.nan)
    f, dims = um.from_pint(lay["unit"])
    want = case["dz"] if case["op"] != "mean" else 1.0             # g/cm**2 resp. g/cm**3 (cgs)
    if not np.all(np.abs(data * f - want) <= 1e-9 * want):
        r.bad(["depth-samples", "column-" + case["op"], "nz=" + ("large" if case["nz"] >= 19 else "small")],
              f"uniform field 1 g/cm**3, slab dz = {case['dz']!r} cm inside the box, nz = {case['nz']}: the columns give "
              f"{np.unique(np.round(data * f, 12)).tolist()} (cgs), expected {want!r}: the {case['op']} over the depth samples "
              f"is not that of nz samples of step dz/nz")


def subs(ctx):
    return [Sub("depth_samples", depth_samples, strategy=depth_case_st, quick=150, thorough=1500),
            Sub("thick_map", thick_map, strategy=c03.map_case_st(thick=True), quick=360, thorough=1200,
                required={"slab_thinner_than_cells": 0.15, "column_crosses_cells": 0.1, "resz_given": 0.2,
                          "op_sum": 0.04, "op_nanmean": 0.04, "window_omitted": 0.04, "operation_on_layer": 0.15,
                          "schedule_checked": 0.1})]
