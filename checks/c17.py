"""C17 - In-place updates, copies and views follow a fixed aliasing contract (DESIGN.md C17)."""
import copy
import warnings

import numpy as np
from hypothesis import strategies as st

from vlib import env
from vlib import unitmodel as um
from vlib.harness import Sub

PROPERTY = "C17"
RULE = ("Hypothesis lists of operations on an object graph: pool of Arrays/Vectors (float64/float32/int64, 1-d of one "
        "length per case (3-6, or 1500 so that slices are a tiny fraction of their parent), some stored in two Datagroups "
        "and a Dataset at once, pool[0] in both groups from the start in half of the cases); rules: x op= y for + - * / with y an "
        "Array / python number / ndarray / Quantity / Vector / another pool object / one of x's own components "
        "(compatible-different units for + -), the result compared with the model, with the unit of the out-of-place x op y, "
        "x's buffer must stay the same memory, y (also ndarray / Quantity operands) must be unchanged; "
        "copy(), copy.copy, copy.deepcopy of Array/Vector/Datagroup/Dataset, container .copy(), slicing, storing into "
        "containers.  Reference model with explicit aliasing: numpy buffers + index expressions (views share the "
        "buffer, copies get a new one), container membership by identity; after every step every tracked object and "
        "every alias is compared with the model (raw values, unit as physical factor+dims) and np.shares_memory is "
        "asserted (false for copies, true for slices).  non-trivial = history in which a shared object (stored in >=1 "
        "container or sliced/copied before) is updated in place; distinct = distinct canonical JSON.")
ASSUMPTIONS = [
    "only in-place combinations whose result is representable in x's dtype are generated (float targets; int targets "
    "with int same-unit operands for + - *)",
    "the model adopts osyris' choice of unit spelling for x after *= and /= (m*cm or m**2) and predicts the values "
    "as a physical quantity",
    "a slice taken before a unit-changing *= or /= keeps its own unit label: only the shared raw values are asserted",
]
osyris = None
UNITS = ["m", "cm", "km", "s", "hr", "g", "kg", "dimensionless"]
DT = ["float64", "float64", "float32", "int64", "int32"]


def prepare(ctx):
    global osyris
    osyris = env.import_osyris()


vals_st = st.lists(st.sampled_from([0.5, 1.0, 1.5, 2.0, 3.0, 4.0, -1.0, -2.5]), min_size=6, max_size=6)
obj_st = st.fixed_dictionaries({"kind": st.sampled_from(["A", "A", "V"]), "nvec": st.integers(1, 3),
                                "dtype": st.sampled_from(DT), "unit": st.sampled_from(UNITS), "vals": vals_st,
                                "zero_d": st.sampled_from([False, False, False, False, True])})
operand_st = st.one_of(
    st.fixed_dictionaries({"t": st.just("pool"), "i": st.integers(0, 30)}),
    st.fixed_dictionaries({"t": st.just("pool"), "i": st.integers(0, 30)}),
    st.fixed_dictionaries({"t": st.just("new"), "spec": obj_st, "scalar": st.booleans()}),
    st.fixed_dictionaries({"t": st.just("num"), "v": st.sampled_from([2, 3, 0.5, 1.5, -2.0])}),
    st.fixed_dictionaries({"t": st.just("nd"), "vals": vals_st, "dtype": st.sampled_from(DT)}),
    st.fixed_dictionaries({"t": st.just("Q"), "vals": vals_st, "unit": st.sampled_from(UNITS), "scalar": st.booleans()}),
    # one of the target's own components (v *= v.x): shares data with what is being updated
    st.fixed_dictionaries({"t": st.just("comp"), "c": st.integers(0, 2)}),
    # ... or a Vector wrapping the target's own components in another order: Vector(v.y, v.x)
    st.fixed_dictionaries({"t": st.just("perm"), "p": st.permutations([0, 1, 2])}),
)
op_st = st.one_of(
    st.fixed_dictionaries({"op": st.just("iop"), "x": st.integers(0, 30), "o": st.sampled_from(["+", "-", "*", "/"]),
                           "y": operand_st, "via": st.sampled_from(["name", "name", "container"])}),
    st.fixed_dictionaries({"op": st.just("iop"), "x": st.integers(0, 30), "o": st.sampled_from(["+", "-", "*", "/"]),
                           "y": operand_st, "via": st.sampled_from(["name", "name", "container"])}),
    st.fixed_dictionaries({"op": st.just("copy"), "x": st.integers(0, 30),
                           "how": st.sampled_from(["copy", "copy.copy", "copy.deepcopy"]),
                           "poke": st.sampled_from(["none", "copy", "orig"])}),
    st.fixed_dictionaries({"op": st.just("slice"), "x": st.integers(0, 30), "a": st.integers(0, 3),
                           "b": st.integers(2, 6), "s": st.sampled_from([1, 1, 2])}),
    st.fixed_dictionaries({"op": st.just("put"), "x": st.integers(0, 30), "c": st.integers(0, 1),
                           "key": st.sampled_from(["a", "b", "c"])}),
    st.fixed_dictionaries({"op": st.just("ccopy"), "c": st.integers(0, 2),
                           "how": st.sampled_from(["copy", "copy.copy", "copy.deepcopy", "copy.deepcopy"])}),
    # a Vector built from an Array of the pool and a new sibling of another float type: its components look at their data
    st.fixed_dictionaries({"op": st.just("mkvec"), "x": st.integers(0, 30), "swap": st.booleans()}),
    # a component of a Vector updated through the attribute: v.y *= 2
    st.fixed_dictionaries({"op": st.just("comp_iop"), "x": st.integers(0, 30), "c": st.integers(0, 2),
                           "o": st.sampled_from(["*", "/"]), "k": st.sampled_from([2.0, 4.0, 0.5])}),
)
case_st = st.fixed_dictionaries({"n": st.sampled_from([3, 4, 5, 6, 3, 4, 5, 6, 1500]),
                                 "pool": st.lists(obj_st, min_size=2, max_size=4),
                                 # pool[0] stored in both Datagroups (and so in the Dataset) before the history starts
                                 "prestore": st.booleans(),
                                 "ops": st.lists(op_st, min_size=2, max_size=12)})


# ------------------------------------------------------------------ model
class MArr:
    """model of one Array: buffer id + index expression + unit"""

    def __init__(self, buf, sel, unit, dtype):
        self.buf, self.sel, self.unit, self.dtype = buf, sel, unit, dtype
        self.lowp = dtype == "float32"


class Entry:
    def __init__(self, kind, comps, objs, full=True):
        self.kind = kind          # "A" / "V"
        self.comps = comps        # list[MArr]
        self.objs = objs          # osyris objects that must all show this state (aliases)
        self.full = full          # False for slices (not storable in the containers of this case)
        self.shared = False


class World:
    def __init__(self, n):
        self.n = n
        self.bufs = []
        self.pool = []
        self.dgs = [osyris.Datagroup(), osyris.Datagroup()]
        self.dgm = [{}, {}]       # key -> Entry
        self.ds = osyris.Dataset()
        self.ds["g0"] = self.dgs[0]
        self.extra = []           # (container object, {key: Entry}) for container copies
        self.buf_lowp = {}        # buffer id -> a float32 operand took part in an update of this buffer
        self.buf_abs = {}         # buffer id -> absolute rounding allowance in raw units (sums may cancel: the error of
        #                           an update scales with the operands, not with the result)

    def raw(self, m):
        b = self.bufs[m.buf]
        return b if m.sel is None else b[m.sel]

    def new_array(self, vals, unit, dtype):
        self.bufs.append(np.array(vals, dtype=np.float64))
        return MArr(len(self.bufs) - 1, None, um.parse(unit), dtype)


def _mk_entry(w, spec, n, scalar=False):
    dt = spec["dtype"]
    ncomp = spec["nvec"] if spec["kind"] == "V" else 1
    comps, arrs = [], []
    for c in range(ncomp):
        v = [spec["vals"][i % 6] + c + 0.25 * (i // 6 % 8) for i in range(1 if scalar else n)]
        if dt.startswith("int"):
            v = [int(round(x * 2)) or 1 for x in v]
        nv = np.array(v, dtype=np.dtype(dt))
        if scalar:
            nv = nv.reshape(())
        comps.append(w.new_array(nv.astype(np.float64), spec["unit"], dt))
        arrs.append(osyris.Array(values=nv.copy(), unit=spec["unit"]))
    obj = arrs[0] if spec["kind"] == "A" else osyris.Vector(*arrs)
    return Entry(spec["kind"], comps, [obj], full=not scalar)


def _arrays_of(obj):
    return list(obj._xyz.values()) if isinstance(obj, osyris.Vector) else [obj]


def _check_world(w, r, where):
    """Every tracked object equals its model; containers hold the expected objects."""
    for ei, e in enumerate(w.pool):
        for oi, obj in enumerate(e.objs):
            arrs = _arrays_of(obj)
            if len(arrs) != len(e.comps):
                r.bad(["component-count"], f"{where}: pool[{ei}]")
                return
            for ci, (a, m) in enumerate(zip(arrs, e.comps)):
                want = w.raw(m)
                got = np.asarray(a.values, dtype=np.float64)
                if got.shape != want.shape:
                    r.bad(["shape-changed"], f"{where}: pool[{ei}] alias {oi} comp {ci}: {got.shape} vs {want.shape}")
                    return
                tol = 1e-5 if (m.lowp or w.buf_lowp.get(m.buf)) else 1e-9
                with np.errstate(all="ignore"):
                    ok = (np.abs(got - want) <= tol * np.abs(want)) | (got == want) | (np.isnan(got) & np.isnan(want))
                    ok |= np.isinf(want) | (np.abs(want) > 1e300)
                    ok |= np.abs(got - want) <= w.buf_abs.get(m.buf, 0.0)
                    if m.dtype == "float32":
                        ok |= (np.abs(want) > 1e30) | (np.abs(want) < 1e-30)
                if not np.all(ok):
                    role = "alias" if oi else "object"
                    kind = "slice-or-copy" if (m.sel is not None) else "values"
                    r.bad(["state-mismatch", e.kind, kind], f"{where}: pool[{ei}] {role} {oi} comp {ci}: values "
                          f"{got.tolist()} but the aliasing model says {want.tolist()}")
                    return
                try:
                    gu = um.from_pint(a.unit)
                except um.UnknownUnit as ex:
                    raise RuntimeError(f"unit model does not know {ex}")
                if not um.same_dims(gu, m.unit) or abs(gu[0] / m.unit[0] - 1) > 1e-9:
                    r.bad(["unit-mismatch", e.kind], f"{where}: pool[{ei}] alias {oi} comp {ci}: unit {a.unit}, model "
                          f"factor {m.unit[0]!r} dims {[str(x) for x in m.unit[1]]}")
                    return
    # converting a tracked Array must reflect its current values (no stale conversion state); also comparisons,
    # which convert their right operand
    for ei, e in enumerate(w.pool):
        if e.kind != "A":
            continue
        m = e.comps[0]
        base = "cm**{}*g**{}*s**{}*K**{}".format(*[float(x) for x in m.unit[1]])
        if abs(m.unit[0] - 1.0) < 1e-12:
            continue                      # already in base units: to() is the identity shortcut
        want = w.raw(m) * m.unit[0]
        for oi, obj in enumerate(e.objs[:1]):
            try:
                got = np.asarray(obj.to(base).values, dtype=np.float64)
                probe = osyris.Array(values=np.zeros(want.shape), unit=base)
                less = np.asarray((probe < obj).values)
            except Exception as ex:
                r.bad(["to-raises", type(ex).__name__], f"{where}: pool[{ei}].to({base}): {ex!r}")
                return
            tol = 1e-5 if (m.lowp or w.buf_lowp.get(m.buf)) else 1e-9
            with np.errstate(all="ignore"):
                ok = (np.abs(got - want) <= tol * np.abs(want)) | (got == want) | ~np.isfinite(want) | (np.abs(want) > 1e30)
                # the rounding allowance of the buffer (a sum that cancels leaves a residue of either sign, or none)
                allow = w.buf_abs.get(m.buf, 0.0) * m.unit[0]
                ok |= np.abs(got - want) <= allow
                okc = (less == (want > 0)) | ~np.isfinite(want) | (want == 0) | (np.abs(want) <= allow)
            if got.shape != want.shape or not np.all(ok):
                r.bad(["conversion-stale"], f"{where}: pool[{ei}].to({base}) = {got.tolist()} but its values are {want.tolist()} (cgs)")
                return
            if not np.all(okc):
                r.bad(["comparison-stale"], f"{where}: 0 < pool[{ei}] gave {less.tolist()} for values {want.tolist()}")
                return
    # the norm of every tracked Vector must follow its components (no stale derived state)
    for ei, e in enumerate(w.pool):
        if e.kind != "V" or len(e.comps) < 2:
            continue
        want = np.sqrt(sum(w.raw(m) ** 2 for m in e.comps))
        for oi, obj in enumerate(e.objs):
            try:
                got = np.asarray(obj.norm.values, dtype=np.float64)
            except Exception as ex:
                r.bad(["norm-raises", type(ex).__name__], f"{where}: {ex!r}")
                return
            lowp = any(m.lowp or w.buf_lowp.get(m.buf) for m in e.comps)
            tol = 1e-5 if lowp else 1e-9
            with np.errstate(all="ignore"):
                ok = (np.abs(got - want) <= tol * np.abs(want)) | (got == want) | ~np.isfinite(want) | (np.abs(want) > 1e30)
                ok |= np.abs(got - want) <= sum(w.buf_abs.get(m.buf, 0.0) for m in e.comps)
                if e.comps[0].dtype.startswith("int"):
                    ok |= np.abs(want) > 3e4      # integer squares may overflow: numpy's business
                if any(m.dtype == "float32" for m in e.comps):
                    ok |= np.abs(want) > 1e18     # float32 squares beyond 3.4e38: the storage type's range, as above
            if got.shape != want.shape or not np.all(ok):
                r.bad(["norm-stale"], f"{where}: pool[{ei}] alias {oi}: norm {got.tolist()} but components give {want.tolist()}")
                return
    for ci, (dg, dm) in enumerate(list(zip(w.dgs, w.dgm)) + w.extra):
        try:
            keys = list(dg.keys())
        except Exception as ex:
            r.bad(["observe-raises", type(ex).__name__], f"{where}: {ex!r}")
            return
        if keys != list(dm.keys()):
            r.bad(["container-keys"], f"{where}: container {ci} keys {keys} model {list(dm.keys())}")
            return
        for k, e in dm.items():
            if not any(dg[k] is o for o in e.objs):
                r.bad(["container-member-identity"], f"{where}: container {ci}[{k!r}] is not the stored object")
                return


def _operand(w, y, n, target):
    """-> (osyris operand, list of (raw float64 values, unit) per target component, description, Entry or None)"""
    t = y["t"]
    ncomp = len(target.comps)
    if t == "pool":
        e = w.pool[y["i"] % len(w.pool)]
        if e.kind == "V" and (target.kind != "V" or len(e.comps) != ncomp):
            return None
        if w.raw(e.comps[0]).shape not in ((), w.raw(target.comps[0]).shape):
            return None
        comps = [(w.raw(e.comps[c if e.kind == "V" else 0]).copy(), e.comps[c if e.kind == "V" else 0].unit,
                  e.comps[0].dtype) for c in range(ncomp)]
        return e.objs[0], comps, "pool", e
    if t == "comp":
        if target.kind != "V":
            return None
        c = y["c"] % ncomp
        obj = _arrays_of(target.objs[0])[c]
        mc = target.comps[c]
        return obj, [(w.raw(mc).copy(), mc.unit, mc.dtype)] * ncomp, "comp", None
    if t == "perm":
        if target.kind != "V" or ncomp < 2:
            return None
        order = [j for j in y["p"] if j < ncomp]
        arrs = _arrays_of(target.objs[0])
        obj = osyris.Vector(*[arrs[j] for j in order])
        comps = [(w.raw(target.comps[j]).copy(), target.comps[j].unit, target.comps[j].dtype) for j in order]
        return obj, comps, "perm", None
    if t == "new":
        spec = dict(y["spec"])
        if spec["kind"] == "V":
            if target.kind != "V":
                spec["kind"] = "A"
            else:
                spec["nvec"] = ncomp
        tn = w.raw(target.comps[0]).shape
        scalar = y["scalar"] or tn == ()
        e = _mk_entry(w, spec, tn[0] if tn else 1, scalar=scalar)
        comps = [(w.raw(e.comps[c if e.kind == "V" else 0]).copy(), e.comps[0].unit, e.comps[0].dtype)
                 for c in range(ncomp)]
        return e.objs[0], comps, "new", e
    if t == "num":
        v = y["v"]
        return v, [(np.float64(v), um.ONE, "int64" if isinstance(v, int) else "float64")] * ncomp, "num", None
    tn = w.raw(target.comps[0]).shape
    if t == "nd":
        dt = y["dtype"]
        vals = [y["vals"][i % 6] for i in range(tn[0])] if tn else y["vals"][:1]
        if dt.startswith("int"):
            vals = [int(round(x * 2)) or 1 for x in vals]
        nv = np.array(vals, dtype=np.dtype(dt)).reshape(tn)
        return nv, [(nv.astype(np.float64), um.ONE, dt)] * ncomp, "nd", None
    if t == "Q":
        vals = [y["vals"][i % 6] for i in range(tn[0])] if (tn and not y["scalar"]) else y["vals"][:1]
        nv = np.array(vals, dtype=np.float64).reshape(tn if (tn and not y["scalar"]) else ())
        return nv * osyris.units(y["unit"]), [(nv.copy(), um.parse(y["unit"]), "float64")] * ncomp, "Q", None
    return None


def history(case, r):
    n = case["n"]
    w = World(n)
    for spec in case["pool"]:
        w.pool.append(_mk_entry(w, spec, n, scalar=bool(spec.get("zero_d"))))
        if spec.get("zero_d"):
            r.label("zero_d_pool_object")
    n_shared_updates = 0
    if case.get("prestore") and w.pool and w.pool[0].full:
        for ci in (0, 1):
            w.dgs[ci]["p0"] = w.pool[0].objs[0]
            w.dgm[ci]["p0"] = w.pool[0]
    _check_world(w, r, "init")
    for si, op in enumerate(case["ops"]):
        if r.records:
            break
        where = f"step {si} {op['op']}"
        o = op["op"]
        if o == "iop":
            e = w.pool[op["x"] % len(w.pool)]
            got = _operand(w, op["y"], n, e)
            if got is None:
                continue
            yobj, ycomps, ykind, yentry = got
            oper = op["o"]
            # representability in the target dtype
            tdt = e.comps[0].dtype
            if tdt.startswith("int"):
                if oper == "/" or not all(c[2].startswith("int") for c in ycomps):
                    continue
                if any(um.same_dims(c[1], m.unit) and abs(c[1][0] / m.unit[0] - 1) > 0 for c, m in zip(ycomps, e.comps)):
                    continue      # a compatible operand in another unit is converted (to float) first
            compatible = all(um.same_dims(c[1], m.unit) for c, m in zip(ycomps, e.comps))
            where += f" x{oper}=y ({ykind})"
            r.label("iop_" + oper, "y_" + ykind, "target_" + e.kind)
            target = e.objs[0]
            ysnap = [(a._array.tobytes(), str(a.unit)) for a in _arrays_of(yobj)] if yentry is not None else None
            if ykind == "nd":
                ysnap_raw = (yobj.tobytes(), None)
            elif ykind == "Q":
                ysnap_raw = (np.asarray(yobj.magnitude).tobytes(), str(yobj.units))
            else:
                ysnap_raw = None
            bufs_before = [a._array for a in _arrays_of(target)]
            n_containers = sum(1 for dm in w.dgm for ee in dm.values() if ee is e)
            # "x op= y gives x the value and unit of x op y": the out-of-place result on a copy of x is the reference
            with warnings.catch_warnings(), np.errstate(all="ignore"):
                warnings.simplefilter("ignore")
                try:
                    xcp = target.copy()
                    ref = xcp + yobj if oper == "+" else xcp - yobj if oper == "-" else xcp * yobj if oper == "*" else xcp / yobj
                    ref_units = [a.unit for a in _arrays_of(ref)]
                except Exception:
                    ref_units = None
            # how the statement is executed
            via_container = None
            if op["via"] == "container":
                for ci, dm in enumerate(w.dgm):
                    for k, ee in dm.items():
                        if ee is e:
                            via_container = (ci, k)
            with warnings.catch_warnings(), np.errstate(all="ignore"):
                warnings.simplefilter("ignore")
                try:
                    if via_container:
                        dg = w.dgs[via_container[0]]
                        k = via_container[1]
                        if oper == "+":
                            dg[k] += yobj
                        elif oper == "-":
                            dg[k] -= yobj
                        elif oper == "*":
                            dg[k] *= yobj
                        else:
                            dg[k] /= yobj
                        res = dg[k]
                    else:
                        x = target
                        if oper == "+":
                            x += yobj
                        elif oper == "-":
                            x -= yobj
                        elif oper == "*":
                            x *= yobj
                        else:
                            x /= yobj
                        res = x
                    raised = None
                except Exception as ex:
                    raised, res = ex, None
            if oper in "+-" and not compatible:
                r.label("incompatible_inplace")
                if raised is None:
                    r.bad(["incompatible-inplace-no-raise", oper], f"{where}")
                    break
                _check_world(w, r, f"after rejected {where}")
                continue
            if raised is not None:
                r.bad(["inplace-raises", oper, type(raised).__name__, "target=" + e.kind + ":" + tdt, "y=" + ykind],
                      f"{where}: {raised!r}")
                break
            if e.kind == "A" and res is not target:
                r.bad(["inplace-new-object", oper], f"{where}: the Array is not the same object after the update")
                break
            if any(not np.shares_memory(b, a._array) for b, a in zip(bufs_before, _arrays_of(res)) if b.size):
                # the update must be written into the data that other references (slices, aliases) look at
                r.bad(["inplace-rebinds-buffer", oper, e.kind], f"{where}: x no longer uses the buffer it had before the update")
                break
            if ref_units is not None and [a.unit for a in _arrays_of(res)] != ref_units:
                r.bad(["inplace-unit-differs-from-binary-op", oper], f"{where}: x has unit {[str(a.unit) for a in _arrays_of(res)]} "
                      f"after x {oper}= y, but x {oper} y has unit {[str(u) for u in ref_units]}")
                break
            if ysnap_raw is not None:
                now_raw = (yobj.tobytes(), None) if ykind == "nd" else (np.asarray(yobj.magnitude).tobytes(), str(yobj.units))
                if now_raw != ysnap_raw:
                    r.bad(["operand-modified", oper, ykind], f"{where}: the {ykind} operand changed")
                    break
            if n_containers >= 2:
                r.label("multi_container_update")
            if e.kind == "V":
                if not isinstance(res, osyris.Vector):
                    r.bad(["inplace-result-type"], f"{where}: {type(res).__name__}")
                    break
                if res is not target:
                    e.objs.insert(0, res)
                    if via_container:
                        pass
            # model update: predicted physical value, expressed in the unit osyris chose
            shared = e.shared or any(ee is e for dm in w.dgm for ee in dm.values()) or len(e.objs) > 1
            res_arrs = _arrays_of(res)
            for ci, (m, (yraw, yu, ydt)) in enumerate(zip(e.comps, ycomps)):
                xraw = w.raw(m)
                with np.errstate(all="ignore"):
                    xc, yc = xraw * m.unit[0], yraw * yu[0]
                    if oper == "+":
                        phys, pu = xc + yc, m.unit
                    elif oper == "-":
                        phys, pu = xc - yc, m.unit
                    elif oper == "*":
                        phys, pu = xc * yc, um.umul(m.unit, yu)
                    else:
                        phys, pu = xc / yc, um.udiv(m.unit, yu)
                try:
                    gu = um.from_pint(res_arrs[ci].unit)
                except um.UnknownUnit as ex:
                    raise RuntimeError(f"unit model does not know {ex}")
                if not um.same_dims(gu, pu):
                    r.bad(["inplace-unit", oper, "target-dtype=" + tdt], f"{where}: x has unit {res_arrs[ci].unit} after the "
                          f"update, expected dims {[str(x) for x in pu[1]]}")
                    break
                with np.errstate(all="ignore"):
                    newraw = phys / gu[0]
                    cdt = m.dtype                                                  # (components may differ in storage type)
                    if cdt.startswith("int"):
                        newraw = np.round(newraw)
                    elif cdt == "float32":
                        newraw = newraw.astype(np.float32).astype(np.float64)     # x keeps its dtype: stored rounded
                    # rounding allowance: relative to the operands (a difference may cancel), propagated through * and /
                    eps = 1.2e-7 if (cdt == "float32" or ydt == "float32" or m.lowp or w.buf_lowp.get(m.buf)) else 2.3e-16
                    prev_abs = w.buf_abs.get(m.buf, 0.0) * m.unit[0]            # physical
                    fin = lambda a: float(np.nanmax(np.where(np.isfinite(a), np.abs(a), 0.0), initial=0.0))  # noqa: E731
                    if oper in "+-":
                        new_abs = prev_abs + 8 * eps * max(fin(xc), fin(yc))
                    elif oper == "*":
                        new_abs = prev_abs * fin(yc) + 8 * eps * fin(phys)
                    else:
                        ymin = float(np.nanmin(np.where(np.isfinite(yc) & (yc != 0), np.abs(yc), np.inf), initial=np.inf))
                        new_abs = (prev_abs / ymin if np.isfinite(ymin) else 0.0) + 8 * eps * fin(phys)
                    new_raw_abs = new_abs / gu[0] if np.isfinite(new_abs) else 0.0
                    w.buf_abs[m.buf] = max(new_raw_abs, w.buf_abs.get(m.buf, 0.0) if m.sel is not None else 0.0)
                buf = w.bufs[m.buf]
                if ydt == "float32" or m.lowp or (yentry is not None and any(
                        c.lowp or w.buf_lowp.get(c.buf) for c in yentry.comps)):
                    w.buf_lowp[m.buf] = True      # float32 rounding propagates through later operands
                if m.sel is None:
                    buf[...] = newraw
                else:
                    buf[m.sel] = newraw
                # unit label: every alias of this object (not slices, they are separate entries) gets the new unit
                m.unit = (gu[0], pu[1])
            if r.records:
                break
            if shared:
                n_shared_updates += 1
                r.label("shared_update")
            if yentry is not None and ysnap is not None and yentry is not e:
                now = [(a._array.tobytes(), str(a.unit)) for a in _arrays_of(yobj)]
                overlap = any(yc.buf == xc.buf for yc in yentry.comps for xc in e.comps)
                if now != ysnap and not overlap:
                    r.bad(["operand-modified", oper], f"{where}: y changed")
                    break
        elif o == "mkvec":
            cand = [ee for ee in w.pool if ee.kind == "A" and ee.full and ee.comps[0].sel is None
                    and ee.comps[0].dtype in ("float64", "float32") and w.raw(ee.comps[0]).ndim == 1]
            if not cand or len(w.pool) > 8:
                continue
            ea = cand[op["x"] % len(cand)]
            ma = ea.comps[0]
            odt = "float32" if ma.dtype == "float64" else "float64"
            with np.errstate(all="ignore"):
                bvals = (w.raw(ma) * 0.5 + 1.0).astype(np.dtype(odt))
            w.bufs.append(bvals.astype(np.float64))
            mb = MArr(len(w.bufs) - 1, None, (ma.unit[0], ma.unit[1]), odt)
            b_obj = osyris.Array(values=bvals.copy(), unit=ea.objs[0].unit)
            w.pool.append(Entry("A", [mb], [b_obj]))
            pair = [(ea.objs[0], ma), (b_obj, mb)]
            if op["swap"]:
                pair.reverse()
            try:
                vec = osyris.Vector(pair[0][0], pair[1][0])
            except Exception as ex:
                r.bad(["vector-of-arrays-raises", type(ex).__name__], f"{where}: Vector of a {ma.dtype} and a {odt} Array: {ex!r}")
                break
            # the components show the data of the two Arrays (shared values; their unit labels are their own)
            w.pool.append(Entry("V", [MArr(mm.buf, mm.sel, (mm.unit[0], mm.unit[1]), mm.dtype) for _, mm in pair], [vec]))
            r.label("vector_of_tracked_arrays_of_two_float_types")
        elif o == "comp_iop":
            cand = [ee for ee in w.pool if ee.kind == "V"]
            if not cand:
                continue
            e = cand[op["x"] % len(cand)]
            c = op["c"] % len(e.comps)
            cname = "xyz"[c]
            m = e.comps[c]
            k = op["k"]
            if m.dtype.startswith("int"):
                if op["o"] == "/" or k != int(k) or k < 1:
                    continue
                k = int(k)
            r.label("component_attribute_update")
            where += f" v.{cname} {op['o']}= {k}"
            target = e.objs[0]
            held = getattr(target, cname)
            buf_before = held._array
            try:
                if op["o"] == "*":
                    if c == 0:
                        target.x *= k
                    elif c == 1:
                        target.y *= k
                    else:
                        target.z *= k
                else:
                    if c == 0:
                        target.x /= k
                    elif c == 1:
                        target.y /= k
                    else:
                        target.z /= k
            except Exception as ex:
                r.bad(["inplace-raises", op["o"], type(ex).__name__, "component-attribute"], f"{where}: {ex!r}")
                break
            now = getattr(target, cname)
            if now is not held:
                r.bad(["inplace-new-object", op["o"], "component-attribute"],
                      f"{where}: the component Array is not the same object after the update (other references to it are cut off)")
                break
            if buf_before.size and not np.shares_memory(buf_before, now._array):
                r.bad(["inplace-rebinds-buffer", op["o"], "component-attribute"], f"{where}: the component no longer uses its buffer")
                break
            buf = w.bufs[m.buf]
            with np.errstate(all="ignore"):
                newraw = w.raw(m) * k if op["o"] == "*" else w.raw(m) / k
                if m.dtype == "float32":
                    newraw = newraw.astype(np.float32).astype(np.float64)
            if m.sel is None:
                buf[...] = newraw
            else:
                buf[m.sel] = newraw
            w.buf_abs[m.buf] = w.buf_abs.get(m.buf, 0.0) * (k if op["o"] == "*" else 1.0 / k)
        elif o == "copy":
            e = w.pool[op["x"] % len(w.pool)]
            src = e.objs[0]
            try:
                cp = src.copy() if op["how"] == "copy" else (copy.copy(src) if op["how"] == "copy.copy"
                                                              else copy.deepcopy(src))
            except Exception as ex:
                r.bad(["copy-raises", op["how"], type(ex).__name__], f"{where}: {ex!r}")
                break
            r.label("copy_" + op["how"])
            if type(cp) is not type(src) or cp is src:
                r.bad(["copy-type", op["how"]], f"{where}: {type(cp).__name__}")
                break
            for a, b in zip(_arrays_of(src), _arrays_of(cp)):
                if a is b or np.shares_memory(a._array, b._array):
                    r.bad(["copy-shares-memory", op["how"], e.kind], f"{where}: {op['how']} of {e.kind} shares its buffer")
                    break
            if r.records:
                break
            comps = []
            for m in e.comps:
                w.bufs.append(np.array(w.raw(m), dtype=np.float64, copy=True))
                comps.append(MArr(len(w.bufs) - 1, None, m.unit, m.dtype))
                w.buf_lowp[len(w.bufs) - 1] = w.buf_lowp.get(m.buf, False)
                w.buf_abs[len(w.bufs) - 1] = w.buf_abs.get(m.buf, 0.0)
            ne = Entry(e.kind, comps, [cp], full=e.full)
            w.pool.append(ne)
            e.shared = True
            ne.shared = True
            if op["poke"] != "none":
                tgt = ne if op["poke"] == "copy" else e
                if not tgt.comps[0].dtype.startswith("int"):
                    x = tgt.objs[0]
                    x *= 2.0
                    if x is not tgt.objs[0]:
                        tgt.objs.insert(0, x)
                    # the doubled physical value, expressed in whatever unit osyris chose (a scaled dimensionless unit
                    # such as g/kg absorbs the converted factor: 0.5 g/kg * 2 == 1000 g^2/kg^2)
                    for m, a in zip(tgt.comps, _arrays_of(x)):
                        try:
                            gu = um.from_pint(a.unit)
                        except um.UnknownUnit as ex:
                            raise RuntimeError(f"unit model does not know {ex}")
                        if not um.same_dims(gu, m.unit):
                            r.bad(["inplace-unit", "*", "target-dtype=" + m.dtype], f"{where}: x *= 2.0 gave unit {a.unit}")
                            break
                        w.buf_abs[m.buf] = w.buf_abs.get(m.buf, 0.0) * (2.0 * m.unit[0] / gu[0])
                        with np.errstate(all="ignore"):
                            newraw = w.raw(m) * (2.0 * m.unit[0] / gu[0])
                        if m.sel is None:
                            w.bufs[m.buf][...] = newraw
                        else:
                            w.bufs[m.buf][m.sel] = newraw
                        m.unit = (gu[0], m.unit[1])
                    n_shared_updates += 1
                    r.label("shared_update")
        elif o == "slice":
            e = w.pool[op["x"] % len(w.pool)]
            if w.raw(e.comps[0]).ndim != 1:
                continue
            m = e.comps[0]
            sl = slice(op["a"], op["b"], op["s"])
            base_idx = np.arange(len(w.bufs[m.buf]))
            cur = base_idx if m.sel is None else base_idx[m.sel]
            new_idx = cur[sl]
            if len(new_idx) == 0:
                continue
            try:
                view = e.objs[0][sl]
            except Exception as ex:
                r.bad(["slice-raises", type(ex).__name__], f"{where}: {ex!r}")
                break
            if any(not np.shares_memory(a._array, b._array) for a, b in zip(_arrays_of(view), _arrays_of(e.objs[0]))):
                r.bad(["slice-not-a-view", e.kind], f"{where}: x[{sl}] does not share memory with x")
                break
            # express the selection as a slice of the buffer (composition of slices is a slice)
            step = int(new_idx[1] - new_idx[0]) if len(new_idx) > 1 else 1
            bsel = slice(int(new_idx[0]), int(new_idx[-1]) + 1, step)
            if e.kind == "V":
                ne = Entry("V", [MArr(mm.buf, bsel, mm.unit, mm.dtype) for mm in e.comps], [view], full=False)
                ne.shared = True
                e.shared = True
                w.pool.append(ne)
                r.label("slice")
                r.label("vector_slice")
                _check_world(w, r, f"after {where}")
                continue
            ne = Entry("A", [MArr(m.buf, bsel, m.unit, m.dtype)], [view], full=False)
            ne.shared = True
            e.shared = True
            w.pool.append(ne)
            r.label("slice")
        elif o == "put":
            e = w.pool[op["x"] % len(w.pool)]
            if not e.full:
                continue
            ci = op["c"]
            try:
                w.dgs[ci][op["key"]] = e.objs[0]
            except Exception as ex:
                r.bad(["put-raises", type(ex).__name__], f"{where}: {ex!r}")
                break
            w.dgm[ci][op["key"]] = e
            r.label("put")
        elif o == "ccopy":
            ci = op["c"]
            how = op["how"]
            src = w.ds if ci == 2 else w.dgs[ci]
            try:
                cp = src.copy() if how == "copy" else (copy.copy(src) if how == "copy.copy" else copy.deepcopy(src))
            except Exception as ex:
                r.bad(["container-copy-raises", how, type(src).__name__, type(ex).__name__], f"{where}: {ex!r}")
                break
            if w.dgm[ci if ci < 2 else 0]:
                r.label("ccopy_" + how)          # (a copy of an empty container shows nothing)
            if type(cp) is not type(src) or cp is src:
                r.bad(["container-copy-type", how], f"{where}: {type(cp).__name__}")
                break
            groups = [(src, cp, w.dgm[ci])] if ci < 2 else [(src["g0"], cp["g0"] if "g0" in cp.keys() else None, w.dgm[0])]
            if ci == 2 and groups[0][1] is None:
                r.bad(["container-copy-content", how], f"{where}: dataset copy lost group g0")
                break
            for gsrc, gcp, dm in groups:
                if list(gcp.keys()) != list(dm.keys()):
                    r.bad(["container-copy-content", how], f"{where}: keys {list(gcp.keys())} vs {list(dm.keys())}")
                    break
                if how == "copy.deepcopy":
                    if ci == 2 and gcp is gsrc:
                        r.bad(["deepcopy-shares-group"], f"{where}: deepcopy of a Dataset shares its Datagroup")
                        break
                    newdm = {}
                    copied = {}      # deepcopy preserves aliasing inside the copied graph (memo): one object stored
                    #                  under two keys is one object in the copy as well
                    for k, e in dm.items():
                        if gcp[k] is gsrc[k] or any(np.shares_memory(a._array, b._array) for a, b in
                                                    zip(_arrays_of(gsrc[k]), _arrays_of(gcp[k]))):
                            r.bad(["deepcopy-shares-member", type(src).__name__], f"{where}: member {k!r} is shared")
                            break
                        if id(e) in copied:
                            prev = copied[id(e)]
                            if gcp[k] is prev.objs[0]:
                                newdm[k] = prev
                                continue
                        comps = []
                        for m in e.comps:
                            w.bufs.append(np.array(w.raw(m), dtype=np.float64, copy=True))
                            comps.append(MArr(len(w.bufs) - 1, None, m.unit, m.dtype))
                            w.buf_lowp[len(w.bufs) - 1] = w.buf_lowp.get(m.buf, False)
                            w.buf_abs[len(w.bufs) - 1] = w.buf_abs.get(m.buf, 0.0)
                        ne = Entry(e.kind, comps, [gcp[k]], full=True)
                        ne.shared = True
                        e.shared = True
                        w.pool.append(ne)
                        newdm[k] = ne
                        copied[id(e)] = ne
                    w.extra.append((gcp, newdm))
                else:
                    if ci == 2:
                        if gcp is not gsrc:
                            r.bad(["shallow-copy-not-shallow", "Dataset"], f"{where}: Dataset.copy() copied its group")
                            break
                    else:
                        for k, e in dm.items():
                            if gcp[k] is not gsrc[k]:
                                r.bad(["shallow-copy-not-shallow", "Datagroup"], f"{where}: member {k!r} was copied")
                                break
                        # the container itself is new: the model tracks it independently
                        w.extra.append((gcp, dict(dm)))
                    for e in dm.values():
                        e.shared = True
        _check_world(w, r, f"after {where}")
    r.nontrivial(n_shared_updates >= 1)


def subs(ctx):
    return [Sub("history", history, strategy=case_st, quick=600, thorough=4000,
                required={"shared_update": 0.25, "slice": 0.1, "ccopy_copy.deepcopy": 0.05, "multi_container_update": 0.05,
                          "y_comp": 0.02, "y_perm": 0.01})]
