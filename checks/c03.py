"""C03 - A zero-thickness map pixel shows the value of the loaded cell containing its sample point (DESIGN.md C03).
Also hosts the machinery shared with C11 (thick maps)."""
import contextlib
import io
import math
import warnings

import numpy as np
from hypothesis import strategies as st

from vlib import env
from vlib import meshes
from vlib import unitmodel as um
from vlib.harness import Sub

PROPERTY = "C03"
RULE = ("random AMR leaf tilings (2-D and 3-D, 1-800 cells, 0-4 refinement levels, holes by deleted leaves / sub-trees, "
        "offset boxes, positions in cm/m/km/au/pc, rows permuted) x origin (uniform in the enlarged bounding box; "
        "snapped to a cell centre / face / corner at 20%; omitted) x orientation (axis letter, three letters, explicit "
        "orthonormal VectorBasis from a random rotation, normal Vector) x window dx(,dy) from 0.05 x smallest cell to 3 "
        "x domain in a random length unit (dy optionally in another unit), or omitted; a class with pixels of 1-1.75 cell sizes, "
        ">= 10 pixels and mostly oblique bases x resolution 1-24 (int, {x,y} dict, a dict with one key, or omitted) x 1-3 layers "
        "(positive float scalars, a signed int64 scalar with a zero, vector as norm, vector in mode 'vec' or 'stream') x "
        "numba thread count; the unit of every returned layer must be that of its data.  Oracle: sample points rebuilt from the returned "
        "Plot.x / Plot.y as origin + x_i u + y_j v, brute-force point location over all cells with an epsilon band on "
        "faces: a point strictly inside cell c must show c's value and be unmasked, a point touching no cell must be "
        "masked, points on faces may show any touching cell or be masked; with dx given Plot.x must be the pixel-centre "
        "grid of the requested window; repeated under other thread counts and row permutations the arrays must agree "
        "on all decided pixels; a few cases are rendered (plot=True): the QuadMesh array must be the returned data, axis limits +-dx/2 in dx's unit, labels carrying that unit.  non-trivial = >=1 pixel inside a cell and (>=1 masked pixel or >=2 distinct cells hit).")
ASSUMPTIONS = [
    "u, v of letter / triple / normal orientations are read from osyris.plot.direction.get_direction (decided by C18)",
    "epsilon band 1e-9 (relative to cell size and coordinate magnitude) around cell faces",
    "thread schedules are sampled (thread count x row permutation), not enumerated",
]
osyris = None
numba = None
get_direction = None


def prepare(ctx):
    global osyris, numba, get_direction
    osyris = env.import_osyris()
    import numba as nb
    numba = nb
    from osyris.plot.direction import get_direction as gd
    get_direction = gd


# ------------------------------------------------------------------ strategies
orient_st = st.one_of(
    st.fixed_dictionaries({"t": st.just("letter"), "s": st.sampled_from(["x", "y", "z", "Z"])}),
    st.fixed_dictionaries({"t": st.just("triple"), "s": st.sampled_from(["xyz", "zyx", "yzx", "xzy", "zxy", "yxz"])}),
    st.fixed_dictionaries({"t": st.just("basis"), "angles": st.lists(st.floats(0, 2 * math.pi), min_size=3, max_size=3)}),
    st.fixed_dictionaries({"t": st.just("normal"), "comps": st.lists(st.sampled_from([0.0, 1.0, -1.0, 0.5, 2.0, -0.3, 1e-3]),
                                                                     min_size=3, max_size=3)}),
    # a normal along a coordinate axis given as a Vector (u, v are then chosen by osyris, not along the other axes), or an
    # explicit basis with such a normal and u, v turned about it
    st.fixed_dictionaries({"t": st.just("axis_normal"), "axis": st.integers(0, 2), "c": st.sampled_from([1.0, -1.0, 2.5, -0.5])}),
    st.fixed_dictionaries({"t": st.just("basis_axis"), "axis": st.integers(0, 2), "sign": st.sampled_from([1.0, -1.0]),
                           "angle": st.floats(0.15, 1.4)}),
)


@st.composite
def map_case_st(draw, thick=False):
    mesh = draw(meshes.mesh_specs(dims=(3,), rich=draw(st.integers(0, 3)) > 0) if thick else meshes.mesh_specs())
    case = {
        "mesh": mesh,
        "origin": {"mode": draw(st.sampled_from(["uniform", "uniform", "uniform", "inside", "inside", "inside", "centre",
                                                 "face", "corner", "none"])),
                   "u": [draw(st.floats(0, 1)) for _ in range(3)], "cell": draw(st.floats(0, 0.999)),
                   "unit": draw(st.sampled_from(meshes.LEN_UNITS))},
        "orient": draw(orient_st),
        "window": {"given": draw(st.integers(0, 9)) > 0,
                   "cls": draw(st.sampled_from(["<0.1", "0.1-1", "0.1-1", "1-10", "1-10", ">10", "pixel~cell", "pixel~cell", "pixel~cell"])),
                   "frac": draw(st.floats(0, 1)), "dy": draw(st.sampled_from([None, None, 0.5, 2.0, 3.0])),
                   "unit": draw(st.sampled_from(meshes.LEN_UNITS)),
                   # dy may be given in another unit than dx
                   "dy_unit": draw(st.sampled_from([None, None] + meshes.LEN_UNITS))},
        "res": draw(st.one_of(st.integers(1, 24), st.fixed_dictionaries({"x": st.integers(1, 24), "y": st.integers(1, 24)}))),
        "layers": draw(st.lists(st.sampled_from(["scalar1", "scalar2", "scalar3", "vecnorm", "vec", "vec_stream"]), min_size=1,
                                max_size=3)),
        "schedule": draw(st.integers(0, 3)) == 0,
    }
    if not thick and case["window"]["cls"] == "pixel~cell" and mesh["d"] == 3:
        # the class is about cells seen obliquely through pixels of about their own size: enough pixels, mostly oblique
        if isinstance(case["res"], int):
            case["res"] = max(case["res"], 10)
        else:
            case["res"] = {k: max(v, 10) for k, v in case["res"].items()}
        if case["orient"]["t"] in ("letter", "triple") and draw(st.integers(0, 3)) > 0:
            case["orient"] = {"t": "basis", "angles": [draw(st.floats(0.2, 1.3)) for _ in range(3)]}
    if not thick and mesh["d"] == 3 and case["orient"]["t"] in ("axis_normal", "basis_axis") and draw(st.booleans()):
        # cells several pixels wide seen along an axis with u, v turned: the tips of their footprint matter
        case["window"]["cls"] = draw(st.sampled_from(["<0.1", "0.1-1", "0.1-1", "1-10"]))
        case["window"]["given"] = True
        case["res"] = draw(st.integers(14, 32))
    if not thick and draw(st.integers(0, 11)) == 0:
        # resolution given for one axis only (the other takes the default), or not at all
        k = case["res"] if isinstance(case["res"], int) else case["res"]["x"]
        case["res_form"] = draw(st.sampled_from(["x_only", "y_only", "none"]))
        case["res"] = {"x": min(k, 6), "y": min(k, 6)}
        case["mesh"]["max_cells"] = min(case["mesh"].get("max_cells", 200), 120)
    if thick:
        case["window"]["cls"] = draw(st.sampled_from(["1-10", ">10", "1-10", "0.1-1", "1-10", "<0.1"]))
        case["origin"]["mode"] = draw(st.sampled_from(["inside", "inside", "inside", "uniform", "centre", "face", "none"]))
        case["dz"] = {"cls": draw(st.sampled_from(["cells", "domain", "thin", "cell", "cells", "thin", "pixel"])),
                      "frac": draw(st.floats(0, 1)), "unit": draw(st.sampled_from(meshes.LEN_UNITS))}
        if mesh["d"] == 3 and draw(st.integers(0, 4)) == 0:
            # a left-handed axis triple (u x v = -n) with a slab several cells deep: the depth samples lie along n
            case["orient"] = {"t": "triple", "s": draw(st.sampled_from(["zyx", "yxz", "xzy"]))}
            case["dz"]["cls"] = draw(st.sampled_from(["cells", "cells", "domain"]))
        case["op"] = draw(st.sampled_from(["nansum", "mean", "nanmean", "sum", "min", "nanmax", "max", "nanmin"]))
        case["resz"] = draw(st.sampled_from([None, None, 1, 2, 3, 5, 8, 31, 31, 62]))     # (31, 62: dz/nz is rarely exact)
        # where the reduction is chosen: at the call, or on every Layer with another reduction named at the call
        case["op_at"] = draw(st.sampled_from(["call", "call", "layer"]))
        if case["resz"] is not None and case["resz"] <= 3 and draw(st.integers(0, 9)) == 0:
            case["res_form"] = draw(st.sampled_from(["x_z", "y_z", "z_only"]))      # dict without x and/or y: defaults
        if isinstance(case["res"], int):
            case["res"] = min(case["res"], 12)
        else:
            case["res"] = {k: min(v, 12) for k, v in case["res"].items()}
    return case


# ------------------------------------------------------------------ helpers shared with C11
def _rot(a, b, c):
    ca, sa, cb, sb, cc, sc = math.cos(a), math.sin(a), math.cos(b), math.sin(b), math.cos(c), math.sin(c)
    rz = np.array([[ca, -sa, 0], [sa, ca, 0], [0, 0, 1]])
    ry = np.array([[cb, 0, sb], [0, 1, 0], [-sb, 0, cb]])
    rx = np.array([[1, 0, 0], [0, cc, -sc], [0, sc, cc]])
    return rz @ ry @ rx


def direction_arg(orient, d):
    """-> (argument for osyris.map, (n,u,v) numpy for the oracle)"""
    if d == 2:
        return "z", (np.array([0.0, 0.0]), np.array([1.0, 0.0]), np.array([0.0, 1.0]))
    t = orient["t"]
    if t in ("letter", "triple"):
        arg = orient["s"]
    elif t == "basis":
        R = _rot(*orient["angles"])
        arg = osyris.VectorBasis(n=osyris.Vector(*R[:, 0].tolist()), u=osyris.Vector(*R[:, 1].tolist()),
                                 v=osyris.Vector(*R[:, 2].tolist()))
        return arg, (R[:, 0], R[:, 1], R[:, 2])
    elif t == "basis_axis":
        ax = orient["axis"]
        n = np.zeros(3)
        n[ax] = orient["sign"]
        e1, e2 = np.zeros(3), np.zeros(3)
        e1[(ax + 1) % 3], e2[(ax + 2) % 3] = 1.0, 1.0
        u = math.cos(orient["angle"]) * e1 + math.sin(orient["angle"]) * e2
        v = np.cross(n, u)
        arg = osyris.VectorBasis(n=osyris.Vector(*n.tolist()), u=osyris.Vector(*u.tolist()), v=osyris.Vector(*v.tolist()))
        return arg, (n, u, v)
    else:
        if t == "axis_normal":
            c = [0.0, 0.0, 0.0]
            c[orient["axis"]] = orient["c"]
        else:
            c = list(orient["comps"])
        if not any(c):
            c = [0.0, 0.0, 1.0]
        arg = osyris.Vector(*c)
    with contextlib.redirect_stdout(io.StringIO()):
        b = get_direction(arg)
    f = lambda w: np.array([float(w.x.values), float(w.y.values), float(w.z.values)])  # noqa: E731
    return arg, (f(b.n), f(b.u), f(b.v))


def setup_map(case, m):
    """Resolve the plain case against the mesh -> dict with origin, window (in position units), kwargs builder."""
    d = m.d
    spec = case["mesh"]
    L = spec["L"]
    fpos = um.parse(spec["pos_unit"])[0]
    o = case["origin"]
    mode = o["mode"]
    uu = np.array(o["u"][:d])
    if mode == "uniform":
        org = m.lo - 0.2 * L + uu * 1.4 * L
    elif mode == "inside":
        org = m.lo + uu * L
    elif mode == "none":
        org = np.zeros(d)
    else:
        i = min(int(o["cell"] * m.n), m.n - 1)
        c, s = m.centre[i], m.size[i]
        if mode == "centre":
            org = c.copy()
        elif mode == "face":
            org = c.copy()
            org[0] += 0.5 * s
        else:
            org = c + 0.5 * s
    w = case["window"]
    smin, smed = float(m.size.min()), float(np.median(m.size))
    res_ = case["res"]
    nres = res_ if isinstance(res_, int) else res_["x"]
    lo_hi = {"<0.1": (0.05 * smin, 0.1 * smed), "0.1-1": (0.1 * smed, 1.0 * smed), "1-10": (1.0 * smed, 10 * smed),
             ">10": (10 * smed, max(3 * L, 11 * smed)),
             # pixels between one and two cell sizes: a cell can cover a neighbouring pixel's centre only obliquely
             "pixel~cell": (nres * smed * 1.02, nres * smed * 1.75)}[w["cls"]]
    a, b = lo_hi
    b = max(b, a * 1.0001)
    dxw = a * (b / a) ** w["frac"]
    dyw = dxw if w["dy"] is None else dxw * w["dy"]
    return {"origin": org, "dx": dxw, "dy": dyw, "fpos": fpos, "ratio": dxw / smed}


def call_kwargs(case, m, su, thick=None):
    d = m.d
    spec = case["mesh"]
    pu = spec["pos_unit"]
    kw = {"plot": False}
    arg, nuv = direction_arg(case["orient"], d)
    if d == 3:
        kw["direction"] = arg
    if case["origin"]["mode"] != "none":
        ou = case["origin"]["unit"]
        f = um.parse(pu)[0] / um.parse(ou)[0]
        kw["origin"] = osyris.Vector(*[osyris.Array(values=float(su["origin"][i] * f), unit=ou) for i in range(d)])
    w = case["window"]
    if w["given"]:
        wu = w["unit"]
        f = um.parse(pu)[0] / um.parse(wu)[0]
        kw["dx"] = float(su["dx"] * f) * osyris.units(wu)
        if w["dy"] is not None:
            yu = w.get("dy_unit") or wu
            kw["dy"] = float(su["dy"] * um.parse(pu)[0] / um.parse(yu)[0]) * osyris.units(yu)
    res = case["res"]
    kw["resolution"] = res if isinstance(res, int) else dict(res)
    form = case.get("res_form")
    if form == "x_only":
        kw["resolution"] = {"x": res["x"]}
    elif form == "y_only":
        kw["resolution"] = {"y": res["y"]}
    elif form == "none":
        kw.pop("resolution")
    return kw, nuv


def make_layers(case, dg, **layer_kw):
    out = []
    for name in case["layers"]:
        if name == "vec":
            out.append(dg.layer("vec", mode="vec", **layer_kw))
        elif name == "vec_stream":
            out.append(dg.layer("vec", mode="stream", **layer_kw))
        elif name == "vecnorm":
            out.append(dg.layer("vec", **layer_kw))
        else:
            out.append(dg.layer(name, **layer_kw))
    return out


VEC_MODES = ("vec", "vec_stream")
LAYER_UNIT = {"scalar1": "K", "scalar2": "g/cm**3", "scalar3": "erg", "vec": "km/s", "vec_stream": "km/s", "vecnorm": "km/s"}


def cell_layer_scale(name, m):
    """magnitude against which rounding of a layer's per-cell values is judged (projections can cancel to ~0)"""
    if name in ("vec", "vec_stream", "vecnorm"):
        return np.sqrt(np.sum(m.vec[:, : m.d] ** 2, axis=1))
    return np.abs({"scalar1": m.scalar1, "scalar2": m.scalar2, "scalar3": m.scalar3.astype(np.float64)}[name])


def cell_layer_values(name, m, u, v):
    """expected per-cell value(s) of a layer: scalar [n] or [n,3] for mode vec"""
    if name == "scalar1":
        return m.scalar1
    if name == "scalar2":
        return m.scalar2
    if name == "scalar3":
        return m.scalar3.astype(np.float64)
    vec = m.vec[:, : m.d]
    if name == "vecnorm":
        return np.sqrt(np.sum(vec ** 2, axis=1))
    if m.d == 2:
        a, b = vec[:, 0], vec[:, 1]
    else:
        a, b = vec @ u, vec @ v
    return np.stack([a, b, np.sqrt(a * a + b * b)], axis=1)


def run_map(layers, kw, threads=None):
    old = numba.get_num_threads()
    try:
        if threads:
            numba.set_num_threads(min(threads, numba.config.NUMBA_NUM_THREADS))
        with warnings.catch_warnings(), np.errstate(all="ignore"), contextlib.redirect_stdout(io.StringIO()):
            warnings.simplefilter("ignore")
            return osyris.map(*layers, **kw), None
    except Exception as e:
        return None, e
    finally:
        numba.set_num_threads(old)


def pixel_coords(p, case, su, kw):
    """returned pixel-centre coordinates converted to the position unit"""
    pu = case["mesh"]["pos_unit"]
    mu = case["window"]["unit"] if "dx" in kw else pu
    f = um.parse(mu)[0] / um.parse(pu)[0]
    return np.asarray(p.x, dtype=np.float64) * f, np.asarray(p.y, dtype=np.float64) * f, f


def check_grid(r, p, case, su, kw, tag):
    """with dx given, Plot.x must be the pixel-centre grid of the requested window (in dx's unit)"""
    if "dx" not in kw:
        return True
    res = case["res"]
    nx = res if isinstance(res, int) else res["x"]
    ny = res if isinstance(res, int) else res["y"]
    form = case.get("res_form")
    if form in ("y_only", "none", "y_z", "z_only"):
        nx = len(p.x)             # the default count is not part of the property: read it from the result
    if form in ("x_only", "none", "x_z", "z_only"):
        ny = len(p.y)
    wu = case["window"]["unit"]
    f = um.parse(case["mesh"]["pos_unit"])[0] / um.parse(wu)[0]
    for nm, got, n, width in (("x", p.x, nx, su["dx"] * f), ("y", p.y, ny, su["dy"] * f)):
        want = -0.5 * width + (np.arange(n) + 0.5) * width / n
        got = np.asarray(got, dtype=np.float64)
        if got.shape != want.shape or np.max(np.abs(got - want)) > 1e-9 * abs(width):
            r.bad([tag, "pixel-grid", nm], f"Plot.{nm} = {got.tolist()[:4]}... expected centres of a window of {width!r} {wu} "
                  f"with {n} pixels: {want.tolist()[:4]}...")
            return False
    return True


# ------------------------------------------------------------------ C03 proper
def thin_map(case, r):
    m = meshes.build(case["mesh"])
    dg = meshes.datagroup(m, osyris)
    su = setup_map(case, m)
    kw, (n, u, v) = call_kwargs(case, m, su)
    layers = make_layers(case, dg)
    d = m.d
    r.label(f"d{d}", "ratio_" + case["window"]["cls"] if case["window"]["given"] else "window_omitted",
            "orient_" + case["orient"]["t"] if d == 3 else "orient_2d", "origin_" + case["origin"]["mode"])
    if case["mesh"]["dx_unit"] == "other":
        r.label("dx_in_other_unit")
    if case.get("res_form"):
        r.label("resolution_" + case["res_form"])
    if "dy" in kw and case["window"].get("dy_unit") not in (None, case["window"]["unit"]):
        r.label("dy_in_other_unit")
    for nme in set(case["layers"]):
        r.label("layer_" + nme)
    p, exc = run_map(layers, kw)
    if exc is not None and not isinstance(exc, RuntimeError):
        r.bad(["raises", type(exc).__name__, f"d{d}"], f"{exc!r}; kw={ {k: str(v)[:60] for k, v in kw.items()} } ncells={m.n}")
        return
    if exc is not None:
        # "No cells were selected": acceptable iff no pixel of the requested window lies inside a cell
        if "dx" not in kw:
            # no window: the error is legitimate iff the plane misses every cell
            dist = np.abs((m.centre - su["origin"][None, :]) @ n[:d]) if d == 3 else np.zeros(m.n)
            reach = 0.5 * m.size * np.sum(np.abs(n[:d])) if d == 3 else 0.5 * m.size
            if np.any(dist < reach * (1 - 1e-9)):
                r.bad(["spurious-no-cells-error", f"d{d}", "no-window"], f"RuntimeError although the plane cuts "
                      f"{int(np.sum(dist < reach))} cells")
            else:
                r.label("legit_empty_error")
            return
        res = case["res"]
        nx = res if isinstance(res, int) else res["x"]
        ny = res if isinstance(res, int) else res["y"]
        if case.get("res_form") in ("y_only", "none"):
            nx = 256
        if case.get("res_form") in ("x_only", "none"):
            ny = 256
        xs = -0.5 * su["dx"] + (np.arange(nx) + 0.5) * su["dx"] / nx
        ys = -0.5 * su["dy"] + (np.arange(ny) + 0.5) * su["dy"] / ny
        pts = su["origin"][None, None, :] + xs[None, :, None] * u[None, None, :d] + ys[:, None, None] * v[None, None, :d]
        idx, touch = meshes.locate(m, pts.reshape(-1, d))
        if np.any(idx >= 0):
            r.bad(["spurious-no-cells-error", f"d{d}"], f"RuntimeError although {int((idx >= 0).sum())} of {len(idx)} pixels lie "
                  f"inside cells; window/cell ratio {su['ratio']:.3g}")
        else:
            r.label("legit_empty_error")
        return
    if not check_grid(r, p, case, su, kw, "thin"):
        return
    xs, ys, f = pixel_coords(p, case, su, kw)
    nx, ny = len(xs), len(ys)
    pts = su["origin"][None, None, :] + xs[None, :, None] * u[None, None, :d] + ys[:, None, None] * v[None, None, :d]
    idx, touch = meshes.locate(m, pts.reshape(-1, d))
    idx = idx.reshape(ny, nx)
    touch = touch.reshape(ny, nx, -1)
    any_touch = touch.any(axis=2)
    inside = idx >= 0
    hit_cells = np.unique(idx[inside])
    r.nontrivial(bool(inside.any() and ((~any_touch).any() or len(hit_cells) >= 2)))
    if inside.any():
        r.label("has_inside_pixels")
    if len(p.layers) != len(case["layers"]):
        r.bad(["layer-count"], f"{len(p.layers)} vs {len(case['layers'])}")
        return
    for li, (name, lay) in enumerate(zip(case["layers"], p.layers)):
        data = lay["data"]
        mask = np.ma.getmaskarray(data)
        vals = np.ma.getdata(data)
        cv = cell_layer_values(name, m, u, v)
        isvec = name in VEC_MODES
        want_shape = (ny, nx, 3) if isvec else (ny, nx)
        if vals.shape != want_shape:
            r.bad(["layer-shape", name], f"{vals.shape} vs {want_shape}")
            return
        pm = mask.all(axis=2) if isvec else mask
        pm_any = mask.any(axis=2) if isvec else mask        # a pixel inside a cell shows all of its components
        # (a) strictly inside: unmasked and the cell's value
        if np.any(inside & pm_any):
            pm = pm_any
            j, i = np.argwhere(inside & pm)[0]
            r.bad(["masked-although-inside", f"d{d}", "ratio=" + (case["window"]["cls"] if "dx" in kw else "auto")],
                  f"layer {name} pixel (j={j}, i={i}) is masked but its sample point {pts[j, i].tolist()} lies strictly inside "
                  f"cell {idx[j, i]} (centre {m.centre[idx[j, i]].tolist()}, size {m.size[idx[j, i]]!r}); window/cell ratio "
                  f"{su['ratio']:.3g}; {int((inside & pm).sum())} such pixels of {nx * ny}")
            return
        want = cv[np.where(inside, idx, 0)]
        cscale = cell_layer_scale(name, m)
        if isvec:
            mag = cscale[np.where(inside, idx, 0)][..., None]        # rotated components may cancel to ~0
            diff = (np.abs(vals - want) > 1e-9 * (mag + 1e-300)).any(axis=2)
        else:
            diff = np.abs(vals - want) > 1e-9 * (np.abs(want) + 1e-300)
        wrong = inside & ~pm & diff
        if np.any(wrong):
            j, i = np.argwhere(wrong)[0]
            r.bad(["wrong-cell-value", name, f"d{d}"], f"pixel (j={j}, i={i}) shows {vals[j, i].tolist() if isvec else vals[j, i]!r} "
                  f"but its sample point lies in cell {idx[j, i]} with value {want[j, i].tolist() if isvec else want[j, i]!r}")
            return
        # (b) touching nothing: masked
        if np.any(~any_touch & ~pm):
            j, i = np.argwhere(~any_touch & ~pm)[0]
            r.bad(["unmasked-outside-all-cells", f"d{d}"], f"layer {name} pixel (j={j}, i={i}) = "
                  f"{vals[j, i].tolist() if isvec else vals[j, i]!r} but no cell contains {pts[j, i].tolist()}")
            return
        # (c) on a face: any touching cell or masked
        amb = any_touch & ~inside & ~pm
        for j, i in np.argwhere(amb):
            cands = cv[touch[j, i]]
            got = vals[j, i]
            okc = np.any(np.all(np.abs(cands - got) <= 1e-9 * (cscale[touch[j, i]][:, None] + 1e-300), axis=1)) \
                if isvec else np.any(np.abs(cands - got) <= 1e-9 * (np.abs(cands) + 1e-300))
            if not okc:
                # (signature "vec" for both vector modes: the recorded finding is the torn write of a vector pixel on a face)
                r.bad(["face-pixel-foreign-value", "vec" if isvec else name], f"pixel (j={j}, i={i}) on a cell face shows {got!r}, touching cells have "
                      f"{cands.tolist()}")
                return
        if lay.get("unit") is None:
            r.bad(["layer-unit-missing", name], "")
            return
        if osyris.units(lay["unit"]) != osyris.units(LAYER_UNIT[name]):
            r.bad(["layer-unit", name], f"thin map layer {name} has unit [{lay['unit']}], the data are in [{LAYER_UNIT[name]}]")
            return
    # schedule / permutation metamorphic check
    if case["schedule"]:
        r.label("schedule_checked")
        perm = np.random.RandomState(case["mesh"]["seed"]).permutation(m.n)
        dg2 = dg[perm]
        for threads, group in ((1, dg), (16, dg), (3, dg2)):
            p2, exc2 = run_map(make_layers(case, group), call_kwargs(case, m, su)[0], threads=threads)
            if exc2 is not None:
                r.bad(["schedule", "raises", type(exc2).__name__], f"threads={threads}: {exc2!r}")
                return
            for name, l1, l2 in zip(case["layers"], p.layers, p2.layers):
                m1, m2 = np.ma.getmaskarray(l1["data"]), np.ma.getmaskarray(l2["data"])
                v1, v2 = np.ma.getdata(l1["data"]), np.ma.getdata(l2["data"])
                dec = inside | ~any_touch
                dec = dec[..., None] if name in VEC_MODES else dec
                if np.any(dec & (m1 != m2)) or np.any(dec & ~m1 & ~m2 & (v1 != v2)):
                    r.bad(["schedule", "result-differs"], f"threads={threads} permuted={group is dg2}: layer {name} differs on decided pixels")
                    return


def rendered(case, r):
    """plot=True: the QuadMesh shows exactly the returned layer data, axis limits are +-dx/2 (dy/2) in dx's unit,
    axis labels carry that unit."""
    import matplotlib.pyplot as plt

    case = dict(case, layers=[n for n in case["layers"] if n not in VEC_MODES] or ["scalar1"])
    case.pop("res_form", None)
    case["window"] = dict(case["window"], given=True)
    m = meshes.build(case["mesh"])
    dg = meshes.datagroup(m, osyris)
    su = setup_map(case, m)
    kw, (n, u, v) = call_kwargs(case, m, su)
    kw["plot"] = True
    layers = make_layers(case, dg)[:1]
    p, exc = run_map(layers, kw)
    try:
        if exc is not None:
            if isinstance(exc, RuntimeError):
                r.label("legit_or_empty")
                return
            r.bad(["rendered", "raises", type(exc).__name__], repr(exc))
            return
        r.nontrivial()
        ax = p.ax
        qm = [c for c in ax.collections if type(c).__name__ == "QuadMesh"]
        if len(qm) != 1:
            r.bad(["rendered", "no-quadmesh"], f"{[type(c).__name__ for c in ax.collections]}")
            return
        arr = np.ma.asarray(qm[0].get_array())
        data = p.layers[0]["data"]
        if arr.size != data.size or not np.array_equal(np.ma.getmaskarray(arr).ravel(), np.ma.getmaskarray(data).ravel()) \
                or not np.ma.allclose(arr.ravel(), data.ravel()):
            r.bad(["rendered", "image-differs-from-data"], "QuadMesh array is not the returned layer data")
            return
        wu = case["window"]["unit"]
        f = um.parse(case["mesh"]["pos_unit"])[0] / um.parse(wu)[0]
        for nm, lim, width in (("x", ax.get_xlim(), su["dx"] * f), ("y", ax.get_ylim(), su["dy"] * f)):
            if abs(lim[0] + 0.5 * width) > 1e-9 * width or abs(lim[1] - 0.5 * width) > 1e-9 * width:
                r.bad(["rendered", "axis-limits", nm], f"{nm} limits {lim} for a window of {width!r} {wu}")
                return
        unit_txt = "[{:~}]".format(osyris.units(wu))
        for nm, lab in (("x", ax.get_xlabel()), ("y", ax.get_ylabel())):
            if unit_txt not in lab:
                r.bad(["rendered", "axis-label-unit", nm], f"label {lab!r} does not carry {unit_txt}")
                return
    finally:
        plt.close("all")


def subs(ctx):
    return [Sub("rendered", rendered, strategy=map_case_st(), quick=25, thorough=60),
            Sub("thin_map", thin_map, strategy=map_case_st(), quick=350, thorough=1500,
                required={"d2": 0.25, "d3": 0.25, "has_inside_pixels": 0.5, "ratio_<0.1": 0.06, "ratio_0.1-1": 0.1,
                          "ratio_1-10": 0.1, "ratio_>10": 0.06, "schedule_checked": 0.1})]
