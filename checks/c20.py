"""C20 - Datagroup and Dataset behave as dictionaries; equality is by content (DESIGN.md C20)."""
import numpy as np
from hypothesis import strategies as st

from vlib import env
from vlib import unitmodel as um
from vlib.harness import Sub

PROPERTY = "C20"
RULE = ("histories: Hypothesis lists of dictionary operations (set good/mis-shaped (other length, or same rows with shape "
        "(n,1)/(n,2))/wrong-type, set of an item that is stored in another group, del, pop with and without default, get "
        "with and without default, update mapping/kwargs/mixed, clear, copy, constructor) over keys a-e executed on Datagroup / Dataset and on "
        "a python dict model, full observable state compared after every step; non-trivial = history with >=1 "
        "rejected insertion and >=1 deletion. equality: generated pairs of Datagroups (identical, copies, unit-"
        "converted, one/some/all elements different (also together with a unit difference, and the same raw numbers in "
        "another unit), different keys, reordered keys, no keys, empty members, values scaled by 2^-40 / 2^-70 so that an "
        "absolute tolerance would hide the difference); non-trivial = same key set "
        "but not equal, or equal with members in different units. distinct = distinct canonical JSON of the case.")
ASSUMPTIONS = [
    "python dict is the reference model (insertion order, KeyError semantics, get/pop defaults)",
    "'rejecting' a value means any exception; the exception type is not judged",
    "a failed update() may have inserted the items preceding the rejected one (sequential) or none (atomic)",
    "replacing the only member of a Datagroup by one of another shape: either outcome accepted",
    "unit-converted equal pairs use integer data and conversions whose factor is an exact float (to cm/g/s)",
]

KEYS = list("abcde") + ["name"]         # ("name" is also a keyword of the Array / Vector constructors)
osyris = None


def prepare(ctx):
    global osyris
    osyris = env.import_osyris()


# ------------------------------------------------------------------ value specs
def _mk_value(v):
    """v = {"kind": "A"|"V", "n": int, "base": int, "unit": str, "nvec": int}"""
    n = v["n"]
    vals = np.arange(n, dtype=np.float64) + v["base"]
    if v.get("cols"):
        vals = np.stack([vals + j for j in range(v["cols"])], axis=1)      # same row count, shape (n, cols)
    if v["kind"] == "A":
        return osyris.Array(values=vals, unit=v["unit"])
    comps = [osyris.Array(values=vals + 100 * (i + 1), unit=v["unit"]) for i in range(v["nvec"])]
    return osyris.Vector(*comps)


value_st = st.fixed_dictionaries({
    "kind": st.sampled_from(["A", "A", "V"]),
    "n": st.sampled_from([3, 3, 3, 3, 2, 4, 0, 0]),
    "base": st.integers(0, 50),
    "unit": st.sampled_from(["m", "cm", "g", "s", "dimensionless"]),
    "nvec": st.integers(1, 3),
    "cols": st.sampled_from([None, None, None, None, None, 1, 2]),
})
key_st = st.sampled_from(KEYS)


def _items_st(minsize=0):
    return st.lists(st.tuples(key_st, value_st), min_size=minsize, max_size=3).map(lambda l: [list(x) for x in l])


dg_op_st = st.one_of(
    st.fixed_dictionaries({"op": st.sampled_from(["get1", "pop_default", "set_from_aux"]), "key": key_st}),
    st.fixed_dictionaries({"op": st.just("set"), "key": key_st, "val": value_st}),
    st.fixed_dictionaries({"op": st.just("set"), "key": key_st, "val": value_st}),
    st.fixed_dictionaries({"op": st.just("del"), "key": key_st}),
    st.fixed_dictionaries({"op": st.just("pop"), "key": key_st}),
    st.fixed_dictionaries({"op": st.just("get"), "key": key_st}),
    st.fixed_dictionaries({"op": st.just("get"), "key": key_st}),
    st.fixed_dictionaries({"op": st.just("getitem"), "key": key_st}),
    st.fixed_dictionaries({"op": st.just("update"), "mapping": _items_st(), "kwargs": _items_st(),
                           "form": st.sampled_from(["mapping", "kwargs", "mixed", "pairs"])}),
    st.fixed_dictionaries({"op": st.just("clear")}),
    st.fixed_dictionaries({"op": st.just("copy"), "then_del": key_st}),
)
dg_case_st = st.fixed_dictionaries({
    "init": _items_st(), "init_form": st.sampled_from(["dict", "kwargs", "empty"]),
    "ops": st.lists(dg_op_st, min_size=1, max_size=14),
})


def _shape_of_spec(v):
    return (v["n"],)


def _observe_dg(dg, model, r, where):
    """Compare every dict observable of dg with the model dict {key: obj}."""
    keys = list(model.keys())
    try:
        if list(dg.keys()) != keys:
            r.bad(["dg", "keys-order"], f"{where}: keys {list(dg.keys())} != model {keys}")
        if list(iter(dg)) != keys:
            r.bad(["dg", "iter"], f"{where}: iter {list(iter(dg))} != {keys}")
        if len(dg) != len(keys):
            r.bad(["dg", "len"], f"{where}: len {len(dg)} != {len(keys)}")
        vals = list(dg.values())
        if len(vals) != len(keys) or any(a is not model[k] for a, k in zip(vals, keys)):
            r.bad(["dg", "values"], f"{where}: values() are not the stored objects in order")
        items = list(dg.items())
        if [k for k, _ in items] != keys or any(v is not model[k] for k, v in items):
            r.bad(["dg", "items"], f"{where}: items() mismatch")
        for k in KEYS:
            if (k in dg) != (k in model):
                r.bad(["dg", "contains"], f"{where}: {k!r} in dg = {k in dg}, model {k in model}")
        for k in keys:
            if dg[k] is not model[k]:
                r.bad(["dg", "getitem"], f"{where}: dg[{k!r}] is not the stored object")
            if dg[k].name != k:
                r.bad(["dg", "name"], f"{where}: stored item name {dg[k].name!r} != key {k!r}")
    except Exception as e:  # observation itself must not raise
        r.bad(["dg", "observe-raises", type(e).__name__], f"{where}: {e!r}")


def _apply_set(container, model, key, obj, shape, r, where, cls="dg"):
    """Datagroup set with the shape gate; returns True if accepted by the model."""
    cur_shape = None
    if model:
        cur_shape = next(iter(model.values())).shape
    ambiguous = model and len(model) == 1 and key in model and cur_shape != obj.shape
    expect_reject = bool(model) and cur_shape != () and cur_shape != obj.shape
    before = list(model.keys())
    try:
        container[key] = obj
        raised = None
    except Exception as e:
        raised = e
    if ambiguous:
        if raised is None:
            model[key] = obj
        return raised is None
    if expect_reject:
        if raised is None:
            r.bad([cls, "misshaped-accepted"], f"{where}: shape {obj.shape} inserted into group of shape {cur_shape}")
            model[key] = obj
        return False
    if raised is not None:
        r.bad([cls, "good-set-raises", type(raised).__name__], f"{where}: {raised!r}")
        return False
    model[key] = obj
    return True


def dg_history(case, r):
    Datagroup = osyris.Datagroup
    model = {}
    n_reject = n_del = 0
    init = {k: _mk_value(v) for k, v in case["init"]}
    # constructor: only mutually consistent shapes are passed to it (others belong to the set rule)
    shapes = {o.shape for o in init.values()}
    if len(shapes) > 1:
        first = next(iter(init.values())).shape
        init = {k: o for k, o in init.items() if o.shape == first}
    try:
        if case["init_form"] == "dict":
            dg = Datagroup(dict(init))
            model = dict(init)
        elif case["init_form"] == "kwargs":
            dg = Datagroup(**init)
            model = dict(init)
        else:
            dg = Datagroup()
    except Exception as e:
        r.bad(["dg", "constructor-raises", type(e).__name__], repr(e))
        return
    _observe_dg(dg, model, r, "after constructor")
    aux = Datagroup(x=osyris.Array(values=np.arange(7.0), unit="m"))
    aux_aliased = False
    for i, op in enumerate(case["ops"]):
        where = f"step {i} {op['op']}"
        o = op["op"]
        if o == "set":
            obj = _mk_value(op["val"])
            ok = _apply_set(dg, model, op["key"], obj, None, r, where)
            if not ok:
                n_reject += 1
        elif o in ("del", "pop"):
            k = op["key"]
            try:
                res = dg.pop(k) if o == "pop" else dg.__delitem__(k)
                raised = None
            except Exception as e:
                raised = e
            if k in model:
                want = model.pop(k)
                n_del += 1
                if raised is not None:
                    r.bad(["dg", f"{o}-raises", type(raised).__name__], f"{where}: {raised!r}")
                elif o == "pop" and res is not want:
                    r.bad(["dg", "pop-returns"], f"{where}: pop did not return the stored object")
            else:
                if not isinstance(raised, KeyError):
                    r.bad(["dg", f"{o}-missing-no-keyerror"], f"{where}: got {raised!r}")
        elif o == "get":
            sentinel = object()
            try:
                res = dg.get(op["key"], sentinel)
                if res is not model.get(op["key"], sentinel):
                    r.bad(["dg", "get"], f"{where}: get returned wrong object")
            except Exception as e:
                r.bad(["dg", "get-raises", type(e).__name__], f"{where}: {e!r}")
        elif o == "get1":
            # dict.get(key) returns None for a missing key
            try:
                res = dg.get(op["key"])
                if res is not model.get(op["key"]):
                    r.bad(["dg", "get"], f"{where}: get(key) returned wrong object")
            except Exception as e:
                r.bad(["dg", "get-one-argument-raises", type(e).__name__], f"{where}: {e!r}")
        elif o == "pop_default":
            sentinel = None if i % 2 else object()          # (None is a default like any other)
            try:
                res = dg.pop(op["key"], sentinel)
                want = model.pop(op["key"], sentinel)
                if want is not sentinel:
                    n_del += 1
                if res is not want:
                    r.bad(["dg", "pop-returns"], f"{where}: pop(key, default) returned the wrong object")
            except Exception as e:
                r.bad(["dg", "pop-default-raises", type(e).__name__], f"{where}: {e!r}")
        elif o == "set_from_aux":
            # an item that is stored in another group of another shape: a rejected insertion must leave it alone
            if aux_aliased:
                continue        # already accepted once: the same object under two keys cannot carry both names
            obj = aux["x"]
            ok = _apply_set(dg, model, op["key"], obj, None, r, where)
            if ok:
                aux_aliased = True
            else:
                n_reject += 1
                r.label("rejected_item_stored_elsewhere")
            if not aux_aliased and aux["x"].name != "x":
                r.bad(["dg", "rejected-insert-renamed-item"],
                      f"{where}: the rejected item, stored as aux['x'], is now named {aux['x'].name!r}")
        elif o == "getitem":
            try:
                res = dg[op["key"]]
                if op["key"] not in model:
                    r.bad(["dg", "getitem-missing-no-keyerror"], where)
                elif res is not model[op["key"]]:
                    r.bad(["dg", "getitem"], where)
            except KeyError:
                if op["key"] in model:
                    r.bad(["dg", "getitem-raises-keyerror"], where)
            except Exception as e:
                r.bad(["dg", "getitem-raises", type(e).__name__], f"{where}: {e!r}")
        elif o == "update":
            mp = [(k, _mk_value(v)) for k, v in op["mapping"]]
            kw = [(k, _mk_value(v)) for k, v in op["kwargs"]]
            form = op["form"]
            if form == "mapping":
                seq = list(dict(mp).items())
                call = lambda: dg.update(dict(mp))  # noqa: E731
            elif form == "pairs":
                seq = list(dict(mp).items())
                call = lambda: dg.update(list(dict(mp).items()))  # noqa: E731
            elif form == "kwargs":
                seq = list(dict(kw).items())
                call = lambda: dg.update(**dict(kw))  # noqa: E731
            else:
                seq = list(dict(mp, **dict(kw)).items())
                call = lambda: dg.update(dict(mp), **dict(kw))  # noqa: E731
            # model: sequential application, stop at the first rejected item
            pre = dict(model)
            seqmodel = dict(model)
            reject = False
            ambiguous_update = False
            for k, obj in seq:
                cur = next(iter(seqmodel.values())).shape if seqmodel else None
                if seqmodel and cur != () and cur != obj.shape:
                    if len(seqmodel) == 1 and k in seqmodel:
                        ambiguous_update = True      # replacing the only member by another shape: either outcome
                    reject = True
                    break
                seqmodel[k] = obj
            try:
                call()
                raised = None
            except Exception as e:
                raised = e
            if reject and ambiguous_update:
                model = {k: dg[k] for k in dg.keys()}
                r.label("update_replaces_only_member")
            elif reject:
                n_reject += 1
                if raised is None:
                    r.bad(["dg", "update-misshaped-accepted"], where)
                    model = {k: dg[k] for k in dg.keys()}
                # either atomic or sequential-prefix state
                got = list(dg.keys())
                if got == list(seqmodel.keys()) and all(dg[k] is seqmodel[k] for k in got):
                    model = seqmodel
                elif got == list(pre.keys()) and all(dg[k] is pre[k] for k in got):
                    model = pre
                else:
                    r.bad(["dg", "update-rejected-state"], f"{where}: keys {got}")
                    model = {k: dg[k] for k in dg.keys()}
            else:
                if raised is not None:
                    r.bad(["dg", "update-raises", type(raised).__name__], f"{where}: {raised!r}")
                model = seqmodel if raised is None else {k: dg[k] for k in dg.keys()}
        elif o == "clear":
            try:
                dg.clear()
            except Exception as e:
                r.bad(["dg", "clear-raises", type(e).__name__], f"{where}: {e!r}")
            model.clear()
        elif o == "copy":
            try:
                cp = dg.copy()
                if list(cp.keys()) != list(model.keys()) or any(cp[k] is not model[k] for k in model):
                    r.bad(["dg", "copy-content"], f"{where}: copy keys {list(cp.keys())} model {list(model)}")
                if not isinstance(cp, Datagroup) or cp is dg:
                    r.bad(["dg", "copy-type"], where)
                if op["then_del"] in cp:
                    del cp[op["then_del"]]
                else:
                    cp["zz"] = next(iter(model.values())).copy() if model else _mk_value(
                        {"kind": "A", "n": 3, "base": 0, "unit": "m", "nvec": 1})
            except Exception as e:
                r.bad(["dg", "copy-raises", type(e).__name__], f"{where}: {e!r}")
        _observe_dg(dg, model, r, f"after {where}")
        if r.records:
            break
    r.nontrivial(n_reject >= 1 and n_del >= 1)
    if n_reject:
        r.label("has_rejected_insert")
    if n_del:
        r.label("has_delete")


# ------------------------------------------------------------------ Dataset
dsval_st = st.one_of(
    st.fixed_dictionaries({"t": st.just("group"), "items": _items_st()}),
    st.fixed_dictionaries({"t": st.just("group"), "items": _items_st()}),
    st.fixed_dictionaries({"t": st.sampled_from(["array", "dict", "int", "none"])}),
)


def _mk_dsval(v):
    if v["t"] == "group":
        g = osyris.Datagroup()
        n = None
        for k, spec in v["items"]:
            obj = _mk_value(spec)
            if n is None:
                n = obj.shape
            if obj.shape == n:
                g[k] = obj
        return g
    if v["t"] == "array":
        return osyris.Array(values=[1.0, 2.0], unit="m")
    if v["t"] == "dict":
        return {"a": 1}
    if v["t"] == "int":
        return 3
    return None


ds_op_st = st.one_of(
    st.fixed_dictionaries({"op": st.sampled_from(["get1", "pop_default"]), "key": key_st}),
    st.fixed_dictionaries({"op": st.just("get"), "key": key_st}),
    st.fixed_dictionaries({"op": st.just("set"), "key": key_st, "val": st.just({"t": "group", "items": []})}),
    st.fixed_dictionaries({"op": st.just("set"), "key": key_st, "val": dsval_st}),
    st.fixed_dictionaries({"op": st.just("set"), "key": key_st, "val": dsval_st}),
    st.fixed_dictionaries({"op": st.just("del"), "key": key_st}),
    st.fixed_dictionaries({"op": st.just("pop"), "key": key_st}),
    st.fixed_dictionaries({"op": st.just("get"), "key": key_st}),
    st.fixed_dictionaries({"op": st.just("getitem"), "key": key_st}),
    st.fixed_dictionaries({"op": st.just("update"),
                           "mapping": st.lists(st.tuples(key_st, dsval_st), max_size=3).map(lambda l: [list(x) for x in l]),
                           "kwargs": st.lists(st.tuples(key_st, dsval_st), max_size=3).map(lambda l: [list(x) for x in l]),
                           "form": st.sampled_from(["mapping", "kwargs", "mixed"])}),
    st.fixed_dictionaries({"op": st.just("clear")}),
    st.fixed_dictionaries({"op": st.just("copy"), "then_del": key_st}),
    st.fixed_dictionaries({"op": st.just("meta"), "key": key_st, "v": st.integers(0, 9)}),
)
ds_case_st = st.fixed_dictionaries({
    "init": st.lists(st.tuples(key_st, st.fixed_dictionaries({"t": st.just("group"), "items": _items_st()})),
                     max_size=3).map(lambda l: [list(x) for x in l]),
    "init_form": st.sampled_from(["dict", "kwargs", "empty"]),
    "ops": st.lists(ds_op_st, min_size=1, max_size=14),
})


def _observe_ds(ds, model, meta, r, where):
    keys = list(model.keys())
    try:
        if list(ds.keys()) != keys or list(iter(ds)) != keys:
            r.bad(["ds", "keys-order"], f"{where}: keys {list(ds.keys())} != model {keys}")
        if len(ds) != len(keys):
            r.bad(["ds", "len"], where)
        if any(a is not model[k] for a, k in zip(list(ds.values()), keys)) or len(list(ds.values())) != len(keys):
            r.bad(["ds", "values"], where)
        if [k for k, _ in ds.items()] != keys or any(v is not model[k] for k, v in ds.items()):
            r.bad(["ds", "items"], where)
        for k in KEYS:
            present = k in ds
            if present != (k in model):
                r.bad(["ds", "contains"], f"{where}: {k}")
        for k in keys:
            if ds[k] is not model[k]:
                r.bad(["ds", "getitem"], where)
        if dict(ds.meta) != meta:
            r.bad(["ds", "meta"], f"{where}: meta {dict(ds.meta)} != {meta}")
    except Exception as e:
        r.bad(["ds", "observe-raises", type(e).__name__], f"{where}: {e!r}")


def _ds_set(ds, model, key, val, r, where):
    """returns True if rejected"""
    is_group = isinstance(val, osyris.Datagroup)
    try:
        ds[key] = val
        raised = None
    except Exception as e:
        raised = e
    if is_group:
        if raised is not None:
            r.bad(["ds", "good-set-raises", type(raised).__name__], f"{where}: {raised!r}")
            return False
        model[key] = val
        if val.name != key:
            r.bad(["ds", "name"], f"{where}: group name {val.name!r} != key {key!r}")
        if getattr(val, "parent", None) is not ds:
            r.bad(["ds", "parent"], f"{where}: group parent is not the dataset")
        return False
    if raised is None:
        r.bad(["ds", "non-datagroup-accepted"], f"{where}: {type(val).__name__}")
        model[key] = val
    return True


def ds_history(case, r):
    Dataset = osyris.Dataset
    model = {}
    meta = {}
    n_reject = n_del = 0
    init = {k: _mk_dsval(v) for k, v in case["init"]}
    try:
        if case["init_form"] == "dict":
            ds = Dataset(dict(init))
            model = dict(init)
        elif case["init_form"] == "kwargs":
            ds = Dataset(**init)
            model = dict(init)
        else:
            ds = Dataset()
    except Exception as e:
        r.bad(["ds", "constructor-raises", type(e).__name__], repr(e))
        return
    for k, g in model.items():
        if g.name != k:
            r.bad(["ds", "name"], f"constructor: group name {g.name!r} != {k!r}")
    _observe_ds(ds, model, meta, r, "after constructor")
    for i, op in enumerate(case["ops"]):
        where = f"step {i} {op['op']}"
        o = op["op"]
        if o == "set":
            if _ds_set(ds, model, op["key"], _mk_dsval(op["val"]), r, where):
                n_reject += 1
        elif o in ("del", "pop"):
            k = op["key"]
            try:
                res = ds.pop(k) if o == "pop" else ds.__delitem__(k)
                raised = None
            except Exception as e:
                raised = e
            if k in model:
                want = model.pop(k)
                n_del += 1
                if raised is not None:
                    r.bad(["ds", f"{o}-raises", type(raised).__name__], f"{where}: {raised!r}")
                elif o == "pop" and res is not want:
                    r.bad(["ds", "pop-returns"], where)
            elif not isinstance(raised, KeyError):
                r.bad(["ds", f"{o}-missing-no-keyerror"], f"{where}: got {raised!r}")
        elif o == "get":
            sentinel = object()
            try:
                if ds.get(op["key"], sentinel) is not model.get(op["key"], sentinel):
                    r.bad(["ds", "get"], where)
            except Exception as e:
                r.bad(["ds", "get-raises", type(e).__name__], f"{where}: {e!r}")
        elif o == "get1":
            try:
                if ds.get(op["key"]) is not model.get(op["key"]):
                    r.bad(["ds", "get"], where)
            except Exception as e:
                r.bad(["ds", "get-one-argument-raises", type(e).__name__], f"{where}: {e!r}")
        elif o == "pop_default":
            sentinel = None if i % 2 else object()
            try:
                res = ds.pop(op["key"], sentinel)
                want = model.pop(op["key"], sentinel)
                if want is not sentinel:
                    n_del += 1
                if res is not want:
                    r.bad(["ds", "pop-returns"], where)
            except Exception as e:
                r.bad(["ds", "pop-default-raises", type(e).__name__], f"{where}: {e!r}")
        elif o == "getitem":
            try:
                res = ds[op["key"]]
                if op["key"] not in model or res is not model[op["key"]]:
                    r.bad(["ds", "getitem"], where)
            except KeyError:
                if op["key"] in model:
                    r.bad(["ds", "getitem-raises-keyerror"], where)
            except Exception as e:
                r.bad(["ds", "getitem-raises", type(e).__name__], f"{where}: {e!r}")
        elif o == "update":
            mp = dict((k, _mk_dsval(v)) for k, v in op["mapping"])
            kw = dict((k, _mk_dsval(v)) for k, v in op["kwargs"])
            form = op["form"]
            if form == "mapping":
                seq, call = list(mp.items()), (lambda: ds.update(mp))
            elif form == "kwargs":
                seq, call = list(kw.items()), (lambda: ds.update(**kw))
            else:
                seq, call = list(dict(mp, **kw).items()), (lambda: ds.update(mp, **kw))
            pre = dict(model)
            seqmodel = dict(model)
            reject = False
            for k, v in seq:
                if not isinstance(v, osyris.Datagroup):
                    reject = True
                    break
                seqmodel[k] = v
            try:
                call()
                raised = None
            except Exception as e:
                raised = e
            if reject:
                n_reject += 1
                if raised is None:
                    r.bad(["ds", "update-non-datagroup-accepted"], where)
                got = list(ds.keys())
                if got == list(seqmodel.keys()) and all(ds[k] is seqmodel[k] for k in got):
                    model = seqmodel
                elif got == list(pre.keys()) and all(ds[k] is pre[k] for k in got):
                    model = pre
                else:
                    r.bad(["ds", "update-rejected-state"], f"{where}: keys {got}")
                    model = {k: ds[k] for k in ds.keys()}
            else:
                if raised is not None:
                    r.bad(["ds", "update-raises", type(raised).__name__], f"{where}: {raised!r}")
                model = seqmodel if raised is None else {k: ds[k] for k in ds.keys()}
                for k, v in seq:
                    if raised is None and model.get(k) is v and v.name != k:
                        r.bad(["ds", "name"], f"{where}: update did not rename group to {k!r}")
        elif o == "clear":
            held = {k: (g, list(g.keys())) for k, g in model.items() if isinstance(g, osyris.Datagroup)}
            try:
                ds.clear()
            except Exception as e:
                r.bad(["ds", "clear-raises", type(e).__name__], f"{where}: {e!r}")
            # (a dictionary's clear() drops its references; the values themselves, which the caller may still hold, stay)
            for k, (g, members) in held.items():
                if list(g.keys()) != members:
                    r.bad(["ds", "clear-empties-the-groups"], f"{where}: group {k!r} held by the caller had members {members}, "
                          f"has {list(g.keys())} after Dataset.clear()")
            model.clear()
            meta.clear()
        elif o == "meta":
            ds.meta[op["key"]] = op["v"]
            meta[op["key"]] = op["v"]
        elif o == "copy":
            try:
                cp = ds.copy()
                if list(cp.keys()) != list(model.keys()):
                    r.bad(["ds", "copy-content"], f"{where}: {list(cp.keys())} vs {list(model)}")
                for k in model:
                    if list(cp[k].keys()) != list(model[k].keys()) or any(
                            cp[k][m] is not model[k][m] for m in model[k].keys()):
                        r.bad(["ds", "copy-members"], f"{where}: group {k} members differ")
                if dict(cp.meta) != meta or cp.meta is ds.meta:
                    r.bad(["ds", "copy-meta"], where)
                if op["then_del"] in list(cp.keys()):
                    del cp[op["then_del"]]
                else:
                    cp["zz"] = osyris.Datagroup()
                cp.meta["copy_only"] = 1
                if op["then_del"] in ("a", "name"):
                    # ... and the copy is cleared: the groups it shares with the original keep their members
                    held = {k: list(g.keys()) for k, g in model.items() if isinstance(g, osyris.Datagroup)}
                    cp.clear()
                    r.label("copy_then_cleared")
                    for k, members in held.items():
                        if list(model[k].keys()) != members:
                            r.bad(["ds", "clear-empties-the-groups", "of-a-copy"], f"{where}: after copy().clear() group {k!r} of the "
                                  f"original has members {list(model[k].keys())}, had {members}")
            except Exception as e:
                r.bad(["ds", "copy-raises", type(e).__name__], f"{where}: {e!r}")
        _observe_ds(ds, model, meta, r, f"after {where}")
        if r.records:
            break
    r.nontrivial(n_reject >= 1 and n_del >= 1)
    if n_reject:
        r.label("has_rejected_insert")
    if n_del:
        r.label("has_delete")


# ------------------------------------------------------------------ equality
# conversions other->self whose factor is an exact float, so integer data stays exactly equal
EXACT_PAIRS = [("cm", "m"), ("cm", "km"), ("g", "kg"), ("s", "hr"), ("s", "day"), ("m", "m"), ("g", "g"),
               ("dimensionless", "dimensionless"), ("cm", "cm")]

member_st = st.fixed_dictionaries({
    "kind": st.sampled_from(["A", "A", "V"]),
    "nvec": st.integers(1, 3),
    "pair": st.sampled_from(EXACT_PAIRS),
    "ints": st.lists(st.integers(-50, 50), min_size=6, max_size=6),
    # how the second group's member relates to the first
    "mut": st.sampled_from(["same", "same", "same", "unit", "one", "some", "all", "one_comp", "unit_one", "unit_raw"]),
    "where": st.integers(0, 5),
    "dtype": st.sampled_from(["float64", "float64", "int64", "float32"]),
    # the second group's member holds the same numbers in another storage type (equality is by content)
    "dtype2": st.sampled_from([None, None, None, "float32", "int32", "int64", "float64", "int16"]),
    # all numbers scaled by 2**scale_exp (exact): tiny values, where an absolute tolerance would hide differences
    "scale_exp": st.sampled_from([0, 0, 0, -40, -70]),
})
eq_case_st = st.fixed_dictionaries({
    "n": st.integers(0, 6),
    "keys": st.lists(key_st, min_size=0, max_size=4, unique=True),
    "members": st.lists(member_st, min_size=4, max_size=4),
    "keymut": st.sampled_from(["same", "same", "same", "same", "reorder", "extra", "missing", "renamed"]),
    "swap": st.booleans(),
})


def _eq_build(case):
    n = case["n"]
    g1, g2 = {}, {}
    all_equal = True
    unit_differs = False
    for key, m in zip(case["keys"], case["members"]):
        u_self, u_other = m["pair"]
        ratio = um.parse(u_other)[0] / um.parse(u_self)[0]   # other -> self (exact integers by construction)
        ncomp = m["nvec"] if m["kind"] == "V" else 1
        comps1, comps2 = [], []
        mut = m["mut"]
        if mut == "one_comp" and ncomp == 1:
            mut = "one"
        converts = mut in ("unit", "unit_one")
        for c in range(ncomp):
            base = np.array(m["ints"][:n], dtype=np.int64) + 7 * c
            v1 = base * int(round(ratio)) if converts else base.copy()
            v2 = base.copy()
            comps1.append(v1)
            comps2.append(v2)
        changed = False
        if n > 0:
            if mut in ("one", "unit_one"):
                for c in range(ncomp):
                    comps2[c][m["where"] % n] += 1000
                changed = True
            elif mut == "one_comp":
                comps2[m["where"] % ncomp][m["where"] % n] += 1000
                changed = True
            elif mut == "some":
                for c in range(ncomp):
                    comps2[c][:: 2] += 1000
                changed = True
            elif mut == "all":
                for c in range(ncomp):
                    comps2[c] += 1000
                changed = True
            elif mut == "unit_raw" and int(round(ratio)) != 1 and any(np.any(c != 0) for c in comps2):
                changed = True          # the same raw numbers in another unit are different quantities
        if changed:
            all_equal = False
        unit2 = u_self
        if mut in ("unit", "unit_one", "unit_raw"):
            unit2 = u_other
            if u_other != u_self:
                unit_differs = True
        dt = np.dtype(m["dtype"])
        dt2 = np.dtype(m.get("dtype2") or m["dtype"])

        scale = 2.0 ** m.get("scale_exp", 0) if (dt.kind == "f" and dt2.kind == "f") else 1.0
        if scale != 1.0 and np.float32 in (dt, dt2) and m.get("scale_exp", 0) < -40:
            scale = 2.0 ** -40

        def mk(comps, unit, dt):
            arrs = [osyris.Array(values=c.astype(dt) * dt.type(scale) if scale != 1.0 else c.astype(dt), unit=unit)
                    for c in comps]
            return arrs[0] if m["kind"] == "A" else osyris.Vector(*arrs)
        g1[key] = mk(comps1, u_self, dt)
        g2[key] = mk(comps2, unit2, dt2)
    same_keys = True
    km = case["keymut"]
    if km == "reorder" and len(g2) > 1:
        g2 = dict(reversed(list(g2.items())))
    elif km == "extra" and len(g1):
        k0 = next(iter(g1))
        g2["zz"] = g2[k0].copy()
        same_keys = False
    elif km == "missing" and len(g2) > 1:
        g2.pop(next(iter(g2)))
        same_keys = False
    elif km == "renamed" and len(g2):
        k0 = next(iter(g2))
        g2 = {("zz" if k == k0 else k): v for k, v in g2.items()}
        same_keys = False
    return g1, g2, same_keys, all_equal, unit_differs


def dg_equality(case, r):
    g1, g2, same_keys, all_equal, unit_differs = _eq_build(case)
    a = osyris.Datagroup(g1)
    b = osyris.Datagroup(g2)
    if case["swap"] and (not unit_differs or not all_equal):
        # (equal pairs in different units are only built for the exact direction of the conversion)
        a, b = b, a
    if case["n"] == 0:
        r.label("empty_members")
    if not case["keys"]:
        r.label("no_keys")
    if any(m.get("scale_exp", 0) < 0 for m in case["members"][: len(case["keys"])]):
        r.label("tiny_values")
    expect = same_keys and all_equal
    try:
        got = a == b
    except Exception as e:
        r.bad(["eq", "raises", type(e).__name__], repr(e))
        return
    if not isinstance(got, (bool, np.bool_)):
        r.bad(["eq", "not-bool"], f"== returned {type(got).__name__}")
        return
    r.label("expect_equal" if expect else "expect_unequal")
    if unit_differs:
        r.label("unit_differs")
    if any(m.get("dtype2") and m["dtype2"] != m["dtype"] for m in case["members"][: len(case["keys"])]):
        r.label("storage_types_differ")
    r.nontrivial((same_keys and not all_equal) or (expect and unit_differs))
    if bool(got) != expect:
        kind = "equal-groups-compare-unequal" if expect else (
            "unequal-content-compares-equal" if same_keys else "different-keys-compare-equal")
        r.bad(["eq", kind], f"a==b gave {got}, expected {expect}; keys {list(a.keys())} vs {list(b.keys())}")
    # reflexivity on copies
    try:
        if not (a == osyris.Datagroup({k: v.copy() for k, v in a.items()})):
            r.bad(["eq", "copy-compares-unequal"], f"group != its own deep copy; keys {list(a.keys())}, n={case['n']}")
    except Exception as e:
        r.bad(["eq", "raises", type(e).__name__], repr(e))


def subs(ctx):
    return [
        Sub("dg_history", dg_history, strategy=dg_case_st, quick=400, thorough=4000,
            required={"has_rejected_insert": 0.1, "has_delete": 0.08, "rejected_item_stored_elsewhere": 0.05}),
        Sub("ds_history", ds_history, strategy=ds_case_st, quick=300, thorough=3000,
            required={"has_rejected_insert": 0.1, "has_delete": 0.08}),
        Sub("dg_equality", dg_equality, strategy=eq_case_st, quick=1500, thorough=12000,
            required={"expect_equal": 0.1, "expect_unequal": 0.3, "unit_differs": 0.03, "tiny_values": 0.2,
                      "empty_members": 0.05}),
    ]
