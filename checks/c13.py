"""C13 - Loading a subset of groups or variables equals projecting the full load (DESIGN.md C13)."""
import numpy as np
from hypothesis import strategies as st

from vlib import env
from vlib import ramses_cases as rc
from vlib import ramses_model as rm
from vlib.harness import Sub

PROPERTY = "C13"
RULE = ("generated outputs with hydro/grav/rt/part/sink files whose hydro and particle descriptors are drawn from an "
        "alphabet rich in x/y/z (suffix stem_x, infix a_x_b, prefix x_frac, no-underscore wx, stems containing the "
        "letter x such as flux_x / extra_y), complete and partial component families, a z component in 2-D outputs, "
        "and in 10% of the sets a scalar that already bears a family's merged name; selections: list of groups, "
        "{group: False}, {group: [variable names]} over all descriptors (occasionally an empty list), and one group "
        "switched off next to a list for the other; every output has particles on at least one CPU.  Oracle: (1) the full "
        "load must contain every descriptor variable with the model's values (located by name, or inside the vector "
        "its family was merged into) - nothing lost or renamed by the merge; (2) a selective load must contain every "
        "requested variable bit-identical to the full load, nothing that was excluded, excluded groups absent, and "
        "vectors exactly for the families whose ndim components were all loaded; the sink group of a selective load "
        "equals the full load's bit for bit.  non-trivial = a skipped variable "
        "precedes a read one in its descriptor, or a partial family is loaded.")
ASSUMPTIONS = [
    "merged names are asserted only where the loader's documented output fixes them (stem_x -> stem, a_x_b -> a_b, "
    "x,y,z -> position); for other spellings any Vector name is accepted",
    "when a scalar already bears a family's merged name, components kept as scalars or merged under any name are "
    "both accepted, as long as no variable is lost",
    "derived mesh variables may appear when their inputs were loaded (mass: density and dx; B_field: a B_ variable)",
    "selections are given as lists / dicts as the property quantifies; a bare string is not generated",
]
osyris = None
FAMILY_TEMPLATES = [
    ("velocity_{c}", "velocity"), ("flux_{c}", "flux"), ("extra_{c}", "extra"), ("B_{c}_left", "B_left"),
    ("B_{c}_right", "B_right"), ("a_{c}_b", "a_b"), ("{c}_frac", None), ("w{c}", None), ("oxy_{c}", "oxy"),
]
SCALARS = ["density", "pressure", "scalar_01", "temperature", "metallicity", "zeta",
           # names that are proper prefixes of other names (a numbered family with ten or more members, an element suffix)
           "scalar_1", "scalar_10", "scalar_11", "metallicity_Fe"]
PART_TEMPLATES = [("position_{c}", "position"), ("velocity_{c}", "velocity"), ("spin_{c}", "spin"), ("l{c}", None)]
PART_SCALARS = [("mass", "d"), ("identity", "i"), ("levelp", "i"), ("family", "b"), ("tag", "b"), ("birth_time", "d")]


def prepare(ctx):
    global osyris
    osyris = env.import_osyris()


@st.composite
def name_sets(draw, ndim, templates, scalars, typed=False):
    """-> (ordered names (or [name, type]), families [{comps:{c:name}, merged}])"""
    fams = []
    names = []
    chosen = draw(st.lists(st.sampled_from(templates), min_size=1, max_size=3, unique=True))
    for tmpl, merged in chosen:
        which = draw(st.sampled_from(["ndim", "ndim", "all3", "partial"]))
        letters = {"ndim": "xyz"[:ndim], "all3": "xyz", "partial": "xyz"[: max(ndim - 1, 1)] if ndim > 1 else "x"}[which]
        if which == "partial" and draw(st.booleans()) and ndim > 1:
            letters = "xyz"[1:ndim] or "y"
        comps = {c: tmpl.format(c=c) for c in letters}
        fams.append({"comps": comps, "merged": merged})
        names += list(comps.values())
    sc = draw(st.lists(st.sampled_from(scalars), min_size=1, max_size=4, unique=True))
    names += [s if not typed else s[0] for s in sc]
    collision = None
    if draw(st.integers(0, 9)) == 0:
        full = [f for f in fams if f["merged"] and all(c in f["comps"] for c in "xyz"[:ndim]) and ndim > 1]
        if full:
            collision = full[0]["merged"]
            if collision not in names:
                names.append(collision)
    names = list(dict.fromkeys(names))
    if draw(st.booleans()):
        names = list(draw(st.permutations(names)))
    if typed:
        tmap = dict(sc)
        names = [[n, tmap.get(n, "d")] for n in names]
    return names, fams, collision


@st.composite
def case_st(draw):
    case = draw(rc.output_cases(with_part=True, with_sink=True, max_cpu=5))
    case["max_cells"] = 400
    case["use_minus1"] = False
    ndim = case["ndim"]
    hv, hf, hcol = draw(name_sets(ndim, FAMILY_TEMPLATES, SCALARS))
    if len(hv) < 2:
        hv.append("scalar_02")
    case["hydro_vars"] = hv
    pd, pf, pcol = draw(name_sets(ndim, PART_TEMPLATES, PART_SCALARS, typed=True))
    if len(pd) < 2:
        pd.append(["extra_d1", "d"])
    if draw(st.booleans()):
        pd = [list(x) for x in draw(st.permutations(pd))]      # integer / byte columns anywhere among the doubles
    case["part_desc"] = pd
    if not any(case["part_counts"]):
        case["part_counts"] = [draw(st.sampled_from([1, 3, 17]))] + list(case["part_counts"])   # skipping zero particles shows nothing
    case["families"] = {"mesh": hf + [{"comps": {c: f"position_{c}" for c in "xyz"[:ndim]}, "merged": "position"}]
                        + ([{"comps": {c: f"grav_acceleration_{c}" for c in "xyz"[:ndim]}, "merged": "grav_acceleration"}]
                           if case["grav"] else [])
                        + ([{"comps": {c: f"photon_flux_1_{c}" for c in "xyz"[:ndim]}, "merged": "photon_flux_1"}]
                           if any(v.startswith("photon_flux") for v in case["rt_vars"]) else []),
                        "part": pf}
    case["collisions"] = [c for c in (hcol, pcol) if c]
    case["collisions_by_group"] = {"mesh": [hcol] if hcol else [], "part": [pcol] if pcol else []}
    # ---- selections
    mesh_names = ["level", "cpu", "dx"] + [f"position_{c}" for c in "xyz"[:ndim]] + hv + (
        ["grav_potential"] + [f"grav_acceleration_{c}" for c in "xyz"[:ndim]] if case["grav"] else []) + list(case["rt_vars"])
    part_names = [n for n, _ in pd]
    sels = []
    for _ in range(draw(st.integers(2, 4))):
        kind = draw(st.sampled_from(["groups", "off", "vars", "vars", "vars", "mixed", "sinkvars"]))
        if kind == "sinkvars":
            cols = list((case.get("sink") or {}).get("cols") or [])
            if len(cols) >= 2:
                # a list of names for the sink group too, in an order of its own
                sels.append({"k": "sinkvars", "v": {"sink": list(draw(st.permutations(cols)))[: draw(st.integers(2, len(cols)))]}})
                continue
            kind = "vars"
        if kind == "groups":
            sels.append({"k": "groups", "v": draw(st.lists(st.sampled_from(["mesh", "part", "sink"]), min_size=1,
                                                           max_size=2, unique=True))})
        elif kind == "string":
            sels.append({"k": "string", "v": draw(st.sampled_from(["mesh", "part", "sink"]))})
        elif kind == "off":
            sels.append({"k": "off", "v": draw(st.lists(st.sampled_from(["mesh", "part", "sink"]), min_size=1,
                                                        max_size=2, unique=True))})
        elif kind == "mixed":
            # one group switched off, the other given as a list of names
            if draw(st.booleans()):
                sels.append({"k": "mixed", "off": ["mesh"], "v": {"part": [n for n in part_names if draw(st.booleans())]
                                                                  or [part_names[-1]]}})
            else:
                sels.append({"k": "mixed", "off": ["part"], "v": {"mesh": [n for n in mesh_names if draw(st.booleans())]
                                                                  or [mesh_names[-1]]}})
        else:
            sel = {}
            if draw(st.integers(0, 3)):
                sel["mesh"] = [n for n in mesh_names if draw(st.booleans())] or [mesh_names[-1]]
            if draw(st.booleans()) or not sel:
                sel["part"] = [n for n in part_names if draw(st.booleans())] or [part_names[-1]]
            if draw(st.integers(0, 11)) == 0:
                sel[draw(st.sampled_from(sorted(sel)))] = []       # nothing requested from that group
            sels.append({"k": "vars", "v": sel})
    case["selections"] = sels
    return case


def _flatten(group):
    out = {}
    for k in group.keys():
        v = group[k]
        if isinstance(v, osyris.Vector):
            for c, a in v._xyz.items():
                out[(k, c)] = a
        else:
            out[(k, "")] = v
    return out


def _locate(flat, name, loaded, fams, ndim, collisions, same, taken=()):
    """Find raw variable `name` in a flattened group.  `same(arr)` tells whether an Array holds the wanted values.
    -> (key or None, problem text or None)"""
    fam = None
    for f in fams:
        if name in f["comps"].values():
            fam = f
    complete = fam is not None and ndim > 1 and all(
        c in fam["comps"] and fam["comps"][c] in loaded for c in "xyz"[:ndim])
    letter = None
    if fam is not None:
        letter = [c for c, n in fam["comps"].items() if n == name][0]
    in_vector = complete and letter in "xyz"[:ndim]
    if not in_vector:
        a = flat.get((name, ""))
        if a is None:
            return None, f"{name!r} should be a scalar under its own name (family complete: {complete})"
        return ((name, ""), None) if same(a) else (None, f"scalar {name!r} has other values")
    collided = fam["merged"] in collisions if fam["merged"] else False
    cands = []
    if fam["merged"] and not collided:
        cands = [(fam["merged"], letter)]
    else:
        # preferred candidates first (own name, documented merged name), then any vector component of that letter
        cands = ([(name, "")] if collided else []) + ([(fam["merged"], letter)] if fam["merged"] else [])
        cands += [k for k in flat if k[1] == letter and k not in cands]
        # among equal candidates, first the vector named like the variable without its component letter
        guess = name.replace("_" + letter, "", 1) if ("_" + letter) in name else name.replace(letter, "", 1)
        cands.sort(key=lambda k: 0 if k[0] == guess else 1)
    # (members that already stand for another requested variable come last: with no rows at all every member "has the
    # wanted values", and two families must not be identified with one vector)
    for k in [k for k in cands if k not in taken] + [k for k in cands if k in taken]:
        if k in flat and same(flat[k]):
            return k, None
    if (name, "") in flat and not collided:
        return None, f"component {name!r} was left as a scalar although all {ndim} components were loaded"
    return None, f"{name!r} not found (expected {'in vector ' + str(fam['merged']) if fam['merged'] else 'in some vector'} component {letter})"


def subset(case, r):
    m, path, nout = rc.write_case(case, with_decoys=False)
    ndim = case["ndim"]
    try:
        try:
            full, _ = rc.quiet_load(osyris, nout, path)
        except Exception as e:
            r.bad(["full-load-raises", type(e).__name__], f"{e!r}; hydro={case['hydro_vars']} part={case['part_desc']}")
            return
        fams = case["families"]
        coll = case.get("collisions", [])
        if coll:
            r.label("name_collision")
        r.label(f"ndim_{ndim}")
        flat_full = {g: _flatten(full[g]) for g in full.keys()}
        # ------------- (1) the full load holds every descriptor variable with the model's values
        exp = rm.expected_mesh(m)
        bits = m.levelmax + 1
        mesh_raw = ["level", "cpu", "dx"] + [f"position_{c}" for c in "xyz"[:ndim]] + m.mesh_vars
        part_raw = [n for n, _ in m.part_desc]
        if "mesh" not in flat_full or "part" not in flat_full:
            r.bad(["full", "group-missing"], f"{list(full.keys())}")
            return
        # row keys from positions
        pos_keys = [("position", c) for c in "xyz"[:ndim]] if ndim > 1 else [("position_x", "")]
        if not all(k in flat_full["mesh"] for k in pos_keys):
            r.bad(["full", "position-missing"], f"{sorted(flat_full['mesh'])}")
            return
        scale = m.boxlen * m.ul
        box = np.stack([rc.phys(flat_full["mesh"][k])[0] for k in pos_keys], axis=1) / scale
        gid = rm.lattice_id(np.round(box * (1 << bits)).astype(np.int64), bits)
        wid = rm.lattice_id(exp["lattice"], bits)
        if len(gid) != len(wid) or not np.array_equal(np.sort(gid), np.sort(wid)):
            r.bad(["full", "wrong-cells"], f"{len(gid)} rows vs {len(wid)} leaves")
            return
        gs, ws = np.argsort(gid), np.argsort(wid)
        where_full = {"mesh": {}, "part": {}}
        for name in mesh_raw:
            if name.startswith("position_"):
                want = exp["position"][:, "xyz".index(name[-1])]
            else:
                want = exp[name]

            def same(a, want=want):
                g, _ = rc.phys(a)
                return g.shape == want.shape and bool(np.all(np.abs(g[gs] - want[ws]) <= 1e-12 * np.abs(want[ws])))
            k, why = _locate(flat_full["mesh"], name, set(mesh_raw), fams["mesh"], ndim, coll, same)
            if k is None:
                kind = "variable-lost-by-merge" if name in coll else "variable-missing-or-wrong"
                r.bad(["full", kind, "mesh"], f"{why}; mesh keys {sorted(full['mesh'].keys())}; descriptor {m.mesh_vars}")
                return
            where_full["mesh"][name] = k
        ntot = sum(m.part_counts)
        for name in part_raw:
            f, _ = rm.var_factor(name, m.ud, m.ul, m.ut)
            want = np.concatenate([np.asarray(m.part[k][name], dtype=np.float64) for k in range(m.ncpu)]) * f

            _, wdims = rm.var_factor(name, m.ud, m.ul, m.ut)

            def same(a, want=want, wdims=wdims):
                g, u = rc.phys(a)
                return rc.dims_close(u[1], wdims) and g.shape == want.shape and bool(
                    np.all(np.abs(g - want) <= 1e-12 * np.abs(want)))
            k, why = _locate(flat_full["part"], name, set(part_raw), fams["part"], ndim, coll, same)
            if k is None and ntot > 0:
                kind = "variable-lost-by-merge" if name in coll else "variable-missing-or-wrong"
                r.bad(["full", kind, "part"], f"{why}; part keys {sorted(full['part'].keys())}; descriptor {m.part_desc}")
                return
            where_full["part"][name] = k
        # ------------- (2) selective loads are projections of the full load
        nontriv = False
        for sel in case["selections"]:
            if sel["k"] == "groups":
                arg = list(sel["v"])
                want_groups = set(sel["v"])
                varsel = {}
            elif sel["k"] == "mixed":
                arg = dict({g: False for g in sel["off"]}, **{g: list(v) for g, v in sel["v"].items()})
                want_groups = {"mesh", "part", "sink"} - set(sel["off"])
                varsel = sel["v"]
            elif sel["k"] == "off":
                arg = {g: False for g in sel["v"]}
                want_groups = {"mesh", "part", "sink"} - set(sel["v"])
                varsel = {}
            else:
                arg = {g: list(v) for g, v in sel["v"].items()}
                want_groups = {"mesh", "part", "sink"}
                varsel = sel["v"]
            r.label("sel_" + sel["k"])
            try:
                sub, _ = rc.quiet_load(osyris, nout, path, select=arg)
            except Exception as e:
                r.bad(["select-raises", sel["k"], type(e).__name__], f"load(select={arg!r}) raised {e!r}")
                return
            have_sink = "sink" in full.keys()
            for g in ("mesh", "part", "sink"):
                should = g in want_groups and (g != "sink" or have_sink)
                if g in varsel and not varsel[g]:
                    r.label("empty_variable_list")
                    continue            # nothing requested from the group: whether an empty group appears is not judged
                if should != (g in sub.keys()):
                    r.bad(["select", "group-presence", sel["k"]], f"select={arg!r}: group {g} present={g in sub.keys()} "
                          f"expected {should}")
                    return
            if sel["k"] == "sinkvars" and have_sink and "sink" in sub.keys():
                # every requested column that comes back equals the full load's (whether the others come back too is not judged)
                fs, ff = _flatten(sub["sink"]), flat_full["sink"]
                missing = [n for n in sel["v"]["sink"] if (n, "") in ff and (n, "") not in fs]
                wrong = [k for k in fs if k in ff and (fs[k].unit != ff[k].unit or fs[k].shape != ff[k].shape or not np.array_equal(
                    np.asarray(fs[k].values), np.asarray(ff[k].values), equal_nan=True))]
                if missing or wrong:
                    r.bad(["select", "sink-variable-list"], f"select={arg!r}: requested columns missing {missing}; columns that "
                          f"differ from the full load's {wrong}")
                    return
                r.label("sink_variable_list")
            elif "sink" in want_groups and have_sink and "sink" in sub.keys():
                fs, ff = _flatten(sub["sink"]), flat_full["sink"]
                if sorted(fs) != sorted(ff) or any(
                        fs[k].unit != ff[k].unit or fs[k].shape != ff[k].shape or not np.array_equal(
                            np.asarray(fs[k].values), np.asarray(ff[k].values), equal_nan=True) for k in ff):
                    r.bad(["select", "sink-differs", sel["k"]], f"select={arg!r}: sink group {sorted(fs)} differs from the full "
                          f"load's {sorted(ff)}")
                    return
                r.label("sink_compared")
            for g, raws, fl in (("mesh", mesh_raw, fams["mesh"]), ("part", part_raw, fams["part"])):
                if g not in want_groups or g not in sub.keys():
                    continue
                requested = [n for n in raws if (g not in varsel) or (n in varsel[g])]
                excluded = [n for n in raws if n not in requested]
                desc_order = raws[3 + ndim:] if g == "mesh" else raws
                # per file: a skipped variable precedes a read one (hydro, grav and rt files have their own offsets)
                files_ = [m.hydro_vars, m.grav_vars, m.rt_vars] if g == "mesh" else [raws]
                for fvars in files_:
                    flags = [n in requested for n in fvars]
                    if any((not a) and any(flags[i + 1:]) for i, a in enumerate(flags)) and (g == "mesh" or ntot > 0):
                        nontriv = True
                        r.label("skip_before_read")
                        if g == "part":
                            tmap = dict(m.part_desc)
                            first_read = max(i for i, a in enumerate(flags) if a)
                            for i, a in enumerate(flags[:first_read]):
                                if not a and tmap[fvars[i]] in "ib":
                                    r.label("part_skip_" + tmap[fvars[i]])
                flat = _flatten(sub[g])
                loaded = set(requested)
                for fam in fl:
                    have = [c for c in "xyz"[:ndim] if fam["comps"].get(c) in loaded]
                    if 0 < len(have) < ndim and ndim > 1:
                        nontriv = True
                        r.label("partial_family")
                accounted = set()
                for name in requested:
                    # the same variable in the full load
                    kf = where_full[g].get(name)
                    if kf is None:
                        continue
                    ref = flat_full[g][kf]

                    def same(a, ref=ref):
                        return a.unit == ref.unit and a.shape == ref.shape and np.array_equal(
                            np.asarray(a.values), np.asarray(ref.values))
                    coll_g = [c for c in case.get("collisions_by_group", {}).get(g, coll) if c in loaded]
                    k, why = _locate(flat, name, loaded, fl, ndim, coll_g, same, taken=accounted)
                    if k is None:
                        r.bad(["select", "variable-differs-or-missing", g, sel["k"]],
                              f"select={arg!r}: {why}; keys {sorted(sub[g].keys())}; descriptor order {desc_order}")
                        return
                    accounted.add(k)
                allowed_extra = set()
                if g == "mesh":
                    # derived variables may appear when their inputs were loaded
                    if "density" in loaded and "dx" in loaded:
                        allowed_extra.add(("mass", ""))
                    if any(n.startswith("B_") for n in loaded):
                        allowed_extra |= {("B_field", c) for c in "xyz"} | {("B_field", "")}
                extra = [k for k in flat if k not in accounted and k not in allowed_extra]
                if extra and (g in varsel):
                    r.bad(["select", "excluded-variable-present", g], f"select={arg!r}: unexpected members {extra} "
                          f"(excluded raw names {excluded})")
                    return
        r.nontrivial(nontriv)
    finally:
        rc.cleanup(path)


def subs(ctx):
    return [Sub("subset", subset, strategy=case_st(), quick=120, thorough=400,
                required={"skip_before_read": 0.3, "partial_family": 0.15, "sel_vars": 0.5, "sel_off": 0.1, "sel_mixed": 0.1,
                          "sink_compared": 0.15, "part_skip_i": 0.03, "part_skip_b": 0.03})]
