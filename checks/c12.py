"""C12 - A level-limited load returns the tree truncated at that level, without holes (DESIGN.md C12)."""
import numpy as np
from hypothesis import strategies as st

from vlib import env
from vlib import ramses_cases as rc
from vlib import ramses_model as rm
from vlib import ramses_select as rs
from vlib.harness import Sub

PROPERTY = "C12"
RULE = ("generated outputs (as C01, >=2 refined levels, with or without part/sink groups; a quarter of the 3-D ones with "
        "16-24 CPUs and levelmin 3 or 48-64 CPUs and levelmin 2) x level predicates l<=k, l<k, l==k, a<l<b, l>=a, l!=k, l in {..} (boolean or 0/1 "
        "masks, accepting at least one level), alone or ANDed with a value predicate (hydro, gravity or RT variable, "
        "threshold taken among the cells inside the window) and/or a position interval placed on a cell of the truncated "
        "tree that the level predicate accepts (a level-L cell where there is one; in the many-CPU regime one box per case "
        "is narrow on every axis with a cap below levelmin); the selection may also name another group (part / sink) "
        "before or after the mesh; for a third of the predicates the per-CPU files end after the records of level L, so "
        "that reading beyond the cap fails.  Oracle from the model: L = highest accepted level; truncated tree = leaves of level < L plus all "
        "cells of level L (refined or not, with their stored restriction values); expected rows = those satisfying all "
        "predicates, compared as row multisets with all columns; meta lmax == L; when the predicate accepts every "
        "level <= L: sum of dx^ndim equals the box volume and the rows are exactly the truncated tree (no holes, no "
        "overlaps).  non-trivial = some level-L cell is refined on disk (truncation differs from filtering leaves).")
ASSUMPTIONS = ["RAMSES stores restriction values in refined cells (the writer gives every cell independent values)",
               "value thresholds are midpoints between distinct stored values; position endpoints avoid all cell centres"]
osyris = None


def prepare(ctx):
    global osyris
    osyris = env.import_osyris()


@st.composite
def case_st(draw):
    many_regime = draw(st.integers(0, 3)) == 0
    case = draw(rc.output_cases(min_levels=1, max_cpu=9, ndims=(3,) if many_regime else (1, 2, 3)))
    case["max_cells"] = 1500
    case["use_minus1"] = False
    if many_regime:
        # many small domains and levelmin 3: a cap below levelmin meets the CPU pre-selection
        lmin = draw(st.sampled_from([3, 2]))
        case.update(ncpu=draw(st.sampled_from([16, 24] if lmin == 3 else [48, 64])), levelmin=lmin,      # 48-64 domains of
                    levelmax=draw(st.integers(4, 5)), refine_p=[0.03] if lmin == 3 else [0.08],          # about one levelmin cube
                    ordering="hilbert", key_mode=draw(st.sampled_from(["uniform", "random"])), ghost_p=0.1, grav=False,
                    rt_vars=[], nboundary=0, max_cells=3500)
    many = case["ncpu"] >= 16
    value_vars = [v for v in case["hydro_vars"] if not v.startswith("B_")] + (["grav_potential"] if case.get("grav") else []) \
        + list(case.get("rt_vars") or [])
    preds = []
    for k in range(draw(st.integers(2, 4))):
        p = {"level": draw(rs.level_preds(case["levelmax"]))}
        extra = draw(st.sampled_from(["none", "none", "val", "pos", "both"]))
        if many and k == 0:
            # a cap below levelmin with a box narrow on every axis: the coarse cells live in the file of the CPU that owns
            # their father cell, which fine search cubes miss
            p["level"] = {"t": "le", "k": draw(st.integers(1, 2)), "as_int": False}
            extra = "pos"
        if many and k == 1:
            # predicates that reject the coarse levels (l >= a, a < l < b), again with a box narrow on every axis
            a = case["levelmin"] if case["ncpu"] >= 48 else draw(st.integers(case["levelmin"], min(case["levelmin"] + 1, case["levelmax"])))
            p["level"] = draw(st.sampled_from([{"t": "ge", "k": a, "as_int": False},
                                               {"t": "band", "a": a - 1, "b": case["levelmax"] + 2}]))
            extra = "pos"
        if extra in ("val", "both"):
            p["val"] = draw(rs.value_preds(value_vars))
            p["val_from_window"] = True
        if extra in ("pos", "both"):
            p["pos"] = draw(rs.pos_preds(case["ndim"], case["levelmax"]))
            if p["pos"]["form"] == "leaf" and (draw(st.booleans()) or (many and k <= 1)):
                p["pos"]["axes"] = "xyz"[: case["ndim"]]
                p["pos"]["shift"] = (p["pos"]["shift"] + [0.1, -0.2, 0.3])[: case["ndim"]]
            if many and k == 1:
                p["on_lowest"] = True
            if many and k == 1 and (case["ncpu"] >= 48 or draw(st.booleans())):
                # a box narrower than the cell it selects that reaches across the cell's lower faces: the search cubes then
                # start one cube lower and must still reach the cube that holds the father cell's centre
                rel = draw(st.sampled_from([0.7, 0.8, 0.9]))
                # per axis: the lower edge below the cell's lower face (shift - rel/2 < -1/2), the cell centre still inside
                # (shift + rel/2 > 0)
                shifts = [-rel / 2 + draw(st.floats(0.1, 0.9)) * (rel - 0.5) for _ in range(3)]
                p["pos"] = dict(p["pos"], form="leaf", leaf=draw(st.floats(0, 0.999)), axes="xyz"[: case["ndim"]],
                                rel=rel, shift=shifts, centred=False, by_size=False, edge=False, corner=None)
            elif many and k <= 1:
                p["pos"] = dict(p["pos"], form="leaf", leaf=draw(st.floats(0, 0.999)), axes="xyz"[: case["ndim"]],
                                rel=draw(st.sampled_from([0.02, 0.1, 0.3])), shift=[draw(st.floats(-0.4, 0.4)) for _ in range(3)],
                                centred=True, by_size=False, edge=False, corner=None)
                p["pos"].pop("axes_abs", None)
        if draw(st.integers(0, 3)) == 0:
            # a cell-size criterion next to the level criterion: it filters rows, it does not move the cap
            p["dx"] = {"op": draw(st.sampled_from([">", ">", "<"])), "k": draw(st.integers(1, case["levelmax"]))}
        # other groups named in the selection next to the mesh (before or after it)
        p["other"] = draw(st.sampled_from([None, None, None, ["part", False, "before"], ["part", False, "after"],
                                           ["sink", False, "after"], ["part", {}, "before"],
                                           # a criterion on the particles' own level column: it concerns the particles only
                                           ["part", "level_fn", "after"], ["part", "level_fn", "before"]]))
        # the files end after the records of level L: a loader that reads deeper than the cap runs off their end
        p["truncate"] = draw(st.integers(0, 2)) == 0
        preds.append(p)
    case["preds"] = preds
    return case


def level_limited(case, r):
    m, path, nout = rc.write_case(case, with_decoys=False)
    try:
        ndim = case["ndim"]
        for spec in case["preds"]:
            L = rs.level_cap(spec["level"], m.levelmax)
            if L is None:
                continue
            exp_t = rm.expected_mesh(m, lcap=L)
            # the box of a leaf-form position predicate sits on a cell of the truncated tree that the level predicate
            # accepts, a level-L cell where there is one
            acc = np.asarray(rs.level_accepts(spec["level"], exp_t["level"]), dtype=bool)
            cand = np.nonzero(acc & (exp_t["level"] == L))[0]
            if spec.get("on_lowest") and acc.any():
                # ... or on one of the coarsest accepted cells (their father cells are the coarsest owners involved)
                cand = np.nonzero(acc & (exp_t["level"] == exp_t["level"][acc].min()))[0]
            if len(cand) == 0:
                cand = np.nonzero(acc)[0]
            res = rs.resolve(spec, m, exp_t, cand=cand)
            keep = rs.mask(res, m, exp_t)
            exp = rs.filter_exp(exp_t, keep)
            refined_at_L = bool(m.levels[L - 1].refined.any()) if L <= len(m.levels) else False
            accepts_all = all(bool(rs.level_accepts(spec["level"], l)) for l in range(1, L + 1))
            r.label("pred_" + spec["level"]["t"])
            if refined_at_L:
                r.label("truncation_matters")
                r.nontrivial()
            if res.get("dx"):
                r.label("dx_criterion")
                if res["dx"][0] == ">" and spec["dx"]["k"] < L and refined_at_L:
                    r.label("dx_criterion_coarser_than_cap")
            if accepts_all and not res["pos"] and not res["val"] and not res.get("dx"):
                r.label("tiling_case")
            sel = rs.build_select(osyris, res, m)
            select = {"mesh": sel}
            if spec.get("other"):
                g, v, where = spec["other"]
                if v == "level_fn":
                    v = {"level": (lambda lp: lp <= 1)} if any(nm == "level" for nm, _ in m.part_desc) else {}
                    r.label("other_group_has_a_level_criterion" if v else "select_names_other_group")
                select = {g: v, "mesh": sel} if where == "before" else {"mesh": sel, g: v}
                r.label("select_names_other_group")
            if res["pos"] and len(exp["level"]) and refined_at_L:
                r.label("pos_keeps_truncated_cell")
            if (res["pos"] and len(res["pos"]) == ndim and L < m.levelmin and m.ncpu >= 16 and len(exp["level"])
                    and max(hi - lo for lo, hi in res["pos"].values()) < 0.5 ** m.levelmin):
                r.label("narrow_box_cap_below_levelmin")
            load_path = path
            if spec.get("truncate") and L < m.levelmax:
                load_path = env.scratch_dir("ramses_trunc_")
                rm.write_output(m, load_path, max_level_written=L)
                r.label("files_end_after_level_L")
            try:
                ds, out = rc.quiet_load(osyris, nout if load_path is path else case["nout"], load_path, select=select)
            except Exception as e:
                if len(exp["level"]) == 0:
                    continue      # nothing qualifies: an empty result may legitimately fail to assemble
                kind = "reads-beyond-level-cap" if load_path is not path else "load-raises"
                r.bad([kind, type(e).__name__], f"{e!r}; spec={spec} L={L}" + (" (files end after level L)" if load_path is not path else ""))
                return
            finally:
                if load_path is not path:
                    rc.cleanup(load_path)
            if ds.meta.get("lmax") != L:
                r.bad(["meta-lmax"], f"meta lmax {ds.meta.get('lmax')} but the predicate {spec['level']} accepts up to {L} "
                      f"(levelmax {m.levelmax})")
                return
            if len(exp["level"]) == 0:
                if "mesh" in ds.keys() and len(ds["mesh"].keys()) and len(ds["mesh"]["level"]) > 0:
                    r.bad(["rows-when-none-expected"], f"spec={spec}")
                continue
            mesh = ds["mesh"]
            nrows = len(mesh["level"].values) if "level" in mesh.keys() else -1
            if nrows != len(exp["level"]):
                got_levels = np.asarray(mesh["level"].values) if nrows > 0 else np.array([])
                kind = "holes-not-truncated" if (refined_at_L and nrows < len(exp["level"])) else "row-count"
                r.bad([kind], f"level predicate {spec['level']} (L={L}, levelmax={m.levelmax}): {nrows} rows, the truncated "
                      f"tree has {len(exp['level'])} qualifying cells; loaded levels {np.unique(got_levels).tolist()}")
                return
            if rc.compare_mesh(osyris, mesh, m, r, exp=exp, tag="capped") is None:
                return
            if accepts_all and not res["pos"] and not res["val"] and not res.get("dx"):
                dx, _ = rc.phys(mesh["dx"])
                vol = float(np.sum(dx ** ndim))
                box = (m.boxlen * m.ul) ** ndim
                if abs(vol / box - 1) > 1e-9:
                    r.bad(["tiling-volume"], f"sum dx^{ndim} = {vol / box!r} of the box volume for predicate {spec['level']}")
                    return
    finally:
        rc.cleanup(path)


def subs(ctx):
    return [Sub("level_limited", level_limited, strategy=case_st(), quick=170, thorough=350,
                required={"truncation_matters": 0.3, "tiling_case": 0.2, "pos_keeps_truncated_cell": 0.1,
                          "select_names_other_group": 0.2, "files_end_after_level_L": 0.15,
                          "narrow_box_cap_below_levelmin": 0.02})]
