"""C15 - The outcome of load() does not depend on earlier loads on the same dataset (DESIGN.md C15)."""
import numpy as np
from hypothesis import strategies as st

from vlib import env
from vlib import ramses_cases as rc
from vlib import ramses_model as rm
from vlib import ramses_select as rs
from vlib.harness import Sub

PROPERTY = "C15"
RULE = ("histories: one generated output per case (3-D Hilbert at 70%, 3-9 CPUs, particles and sinks, >=2 refined levels, "
        "levelmin 3 at 50% so that CPU pre-selection really restricts) and a Hypothesis list of 2-6 load() calls with "
        "arguments drawn from: no arguments, group lists / strings, {group: False}, variable lists, value / position "
        "(restricting) / level predicates and combinations, cpu_list, sortby (mesh, part or sink keys), and repeats of an earlier call "
        "with the same argument objects.  Oracle (differential against fresh "
        "executions): after each call every group the call produced equals the group a fresh RamsesDataset returns "
        "for the same arguments (keys, values bitwise, units), groups not produced by this call are unchanged, the key "
        "set is the union, meta ncells/nparticles equal the fresh load's for produced groups.  non-trivial = a "
        "positionally restricting or cpu_list call followed by a call that does not initialise the mesh readers, or a "
        "level-capped call followed by an uncapped one; the generator weights these orders.")
ASSUMPTIONS = ["a fresh RamsesDataset on the same files is the reference for each call (the files are decided by C01-C14)",
               "the fresh dataset gets argument objects of its own; half of the histories end by handing the very objects of an "
               "earlier call to load() again: what an earlier load() did to them is then an influence of that earlier call"]
osyris = None


def prepare(ctx):
    global osyris
    osyris = env.import_osyris()


@st.composite
def call_st(draw, case):
    kind = draw(st.sampled_from(["plain", "groups", "groups", "off", "vars", "pos", "pos", "level", "level", "val",
                                 "cpu_list", "cpu_list", "sortby", "combo"]))
    mesh_names = ["level", "cpu", "dx"] + [f"position_{c}" for c in "xyz"[: case["ndim"]]] + case["hydro_vars"]
    part_names = [n for n, _ in case["part_desc"]]
    extra_sort = draw(st.sampled_from([None, None, None, {"mesh": "density"}, {"part": "P0"}, {"mesh": "density", "part": "P0"},
                                       {"sink": "id"}]))
    if kind == "plain":
        return {"k": "plain", "sortby": extra_sort}
    if kind == "groups":
        return {"k": "groups", "v": draw(st.sampled_from([["part"], ["sink"], ["part", "sink"], ["mesh"], "part",
                                                         ["mesh", "part"]])), "sortby": extra_sort}
    if kind == "off":
        return {"k": "off", "v": draw(st.sampled_from([["mesh"], ["part"], ["mesh", "sink"], ["sink"]])),
                "sortby": extra_sort}
    if kind == "vars":
        sel = {}
        if draw(st.booleans()):
            sel["mesh"] = [n for n in mesh_names if draw(st.booleans())] or ["density" if "density" in mesh_names else mesh_names[0]]
        if draw(st.booleans()) or not sel:
            sel["part"] = [n for n in part_names if draw(st.booleans())] or [part_names[0]]
        return {"k": "vars", "v": sel}
    if kind == "pos":
        return {"k": "pred", "spec": {"pos": draw(rs.pos_preds(case["ndim"], case["levelmax"], around_leaf="leaf"))},
                "allaxes": draw(st.booleans())}
    if kind == "level":
        return {"k": "pred", "spec": {"level": draw(rs.level_preds(case["levelmax"]))}}
    if kind == "val":
        if draw(st.integers(0, 3)) == 0:
            return {"k": "pred", "spec": {"val": {"var": "density", "op": ">", "qf": 0.5, "none": True}}}
        return {"k": "pred", "spec": {"val": draw(rs.value_preds(case["hydro_vars"]))}}
    if kind == "cpu_list":
        return {"k": "cpu_list", "v": draw(st.lists(st.integers(1, case["ncpu"]), min_size=1, max_size=3, unique=True))}
    if kind == "sortby":
        return {"k": "sortby", "group": draw(st.sampled_from(["part", "mesh", "sink"]))}
    return {"k": "pred", "spec": {"pos": draw(rs.pos_preds(case["ndim"], case["levelmax"], around_leaf="leaf")),
                                  "level": draw(rs.level_preds(case["levelmax"]))}, "allaxes": True,
            "with_off": draw(st.sampled_from([None, "part"]))}


@st.composite
def case_st(draw):
    ndims = draw(st.sampled_from([(3,), (3,), (3,), (2,)]))
    case = draw(rc.output_cases(ndims=ndims, min_cpu=3, max_cpu=9, with_part=True, with_sink=True, min_levels=2))
    case["ordering"] = draw(st.sampled_from(["hilbert", "hilbert", "hilbert", "planar"]))
    case["use_minus1"] = False
    case["nboundary"] = 0
    if case["ndim"] == 3:
        case["levelmin"] = draw(st.sampled_from([3, 3, 3, 2]))
        case["levelmax"] = case["levelmin"] + draw(st.integers(1, 3))
        case["refine_p"] = [draw(st.sampled_from([0.03, 0.1, 0.2]))]
        case["max_cells"] = 3500
    if case["sink"]["mode"] == "missing":
        case["sink"] = {"mode": "file", "dialect": "code", "cols": ["id", "msink"], "units": ["1", "m"], "n": 2}
    if "density" not in case["hydro_vars"]:
        case["hydro_vars"] = ["density"] + case["hydro_vars"]
    calls = draw(st.lists(call_st(case), min_size=2, max_size=6))
    # weight the orders named in the property: restricting call followed by a call without mesh readers
    if draw(st.integers(0, 9)) < 7:
        calls = calls[:4] + [{"k": "pred", "spec": {"pos": draw(rs.pos_preds(case["ndim"], case["levelmax"],
                                                                              around_leaf="leaf"))}, "allaxes": True},
                             draw(st.sampled_from([{"k": "groups", "v": ["part"]}, {"k": "off", "v": ["mesh"]},
                                                   {"k": "plain"}]))]
    # ... and a level-capped call followed by a mesh load whose selection has another form
    if draw(st.integers(0, 9)) < 4:
        follow = draw(st.sampled_from([{"k": "groups", "v": ["mesh"]}, {"k": "groups", "v": ["mesh", "part"]},
                                       {"k": "plain"}, {"k": "vars", "v": {"mesh": ["density", "level", "dx"]}},
                                       {"k": "cpu_list", "v": [1, 2]}, {"k": "off", "v": ["part"]},
                                       # a dict-style mesh selection without a level key
                                       {"k": "pred", "spec": {"val": {"var": "density", "op": ">", "qf": 0.05}}},
                                       {"k": "pred", "spec": {"pos": dict(draw(rs.pos_preds(case["ndim"], case["levelmax"],
                                                                                          around_leaf="leaf")), rel=8.0,
                                                                          centred=True)}, "allaxes": True}]))
        calls = calls[:4] + [{"k": "pred", "spec": {"level": {"t": "le", "k": draw(st.integers(1, max(case["levelmax"] - 1, 1)))}}},
                             follow]
    # position criteria on every axis, then on fewer axes (limits an earlier call derived must not outlive it)
    if draw(st.integers(0, 9)) < 5:
        small = {"rel": draw(st.sampled_from([0.3, 0.6, 0.9])), "centred": True, "edge": False, "corner": None}
        one_axis = draw(st.sampled_from(list("xyz"[: case["ndim"]])))
        calls = calls[:5] + [{"k": "pred", "spec": {"pos": dict(draw(rs.pos_preds(case["ndim"], case["levelmax"], around_leaf="leaf")),
                                                                **small)}, "allaxes": True},
                             # ... then a slab: one axis only, through another leaf
                             {"k": "pred", "spec": {"pos": dict(draw(rs.pos_preds(case["ndim"], case["levelmax"], around_leaf="leaf")),
                                                                axes=one_axis, shift=[draw(st.floats(-0.4, 0.4))], **small)},
                              "allaxes": False}]
    # the same argument objects handed to load() a second time (define the selection once, load again)
    if draw(st.integers(0, 9)) < 5:
        j = draw(st.integers(0, len(calls) - 1))
        calls = calls + [{"k": "repeat", "of": j}]
    case["calls"] = calls
    return case


def _extra_sort(call, m):
    sb = call.get("sortby")
    if not sb:
        return {}
    out = {}
    for g, key in sb.items():
        if g == "part":
            sc, _ = rc.merged_names([n for n, _ in m.part_desc], m.ndim)
            if not sc:
                continue
            key = sc[0]
        out[g] = key
    return {"sortby": out} if out else {}


def _expected_groups(call, m, has_sink):
    """which groups a call must produce, from its arguments alone"""
    allg = {"mesh", "part"} | ({"sink"} if has_sink else set())
    k = call["k"]
    if k == "groups":
        v = call["v"]
        return ({v} if isinstance(v, str) else set(v)) & allg
    if k == "off":
        return allg - set(call["v"])
    if k == "pred" and call.get("with_off"):
        return allg - {call["with_off"]}
    return allg


_LAST = {}         # the resolved predicates of the last "pred" call built by _kwargs


def _kwargs(call, m, exp_all):
    k = call["k"]
    _LAST.pop("res", None)
    if k == "plain":
        return dict(_extra_sort(call, m))
    if k == "groups":
        return dict({"select": call["v"]}, **_extra_sort(call, m))
    if k == "off":
        return dict({"select": {g: False for g in call["v"]}}, **_extra_sort(call, m))
    if k == "vars":
        return {"select": {g: list(v) for g, v in call["v"].items()}}
    if k == "cpu_list":
        return {"cpu_list": list(call["v"])}
    if k == "sortby":
        key = "density" if call["group"] == "mesh" else ("id" if call["group"] == "sink" else None)
        if call["group"] == "part":
            sc, _ = rc.merged_names([n for n, _ in m.part_desc], m.ndim)
            key = sc[0] if sc else None
        return {"sortby": {call["group"]: key}} if key else {}
    spec = dict(call["spec"])
    if call.get("allaxes") and spec.get("pos") and spec["pos"]["form"] == "leaf":
        spec["pos"] = dict(spec["pos"], axes="xyz"[: m.ndim], shift=(spec["pos"]["shift"] + [0.1, -0.2, 0.3])[: m.ndim])
    res = rs.resolve(spec, m, exp_all)
    if spec.get("val") and spec["val"].get("none") and res["val"]:
        res["val"] = (res["val"][0], ">", float(np.max(exp_all[res["val"][0]])) * 4.0 + 1.0)      # no cell qualifies
    _LAST["res"] = res
    sel = {"mesh": rs.build_select(osyris, res, m)}
    if call.get("with_off"):
        sel[call["with_off"]] = False
    return {"select": sel}


def _members(group):
    out = {}
    for k in group.keys():
        v = group[k]
        if isinstance(v, osyris.Vector):
            for c, a in v._xyz.items():
                out[(k, c)] = a
        else:
            out[(k, "")] = v
    return out


def _snapshot(group):
    return {k: (np.array(a.values, copy=True), str(a.unit)) for k, a in _members(group).items()}


def _diff_snap(s1, s2):
    if set(s1) != set(s2):
        return f"members {sorted(set(s1) ^ set(s2))} differ"
    for k in s1:
        v1, u1 = s1[k]
        v2, u2 = s2[k]
        if u1 != u2:
            return f"{k}: unit {u1} vs {u2}"
        if np.shape(v1) != np.shape(v2):
            return f"{k}: shape {np.shape(v1)} vs {np.shape(v2)}"
        if not np.array_equal(v1, v2, equal_nan=True):
            return f"{k}: values differ"
    return None


def history(case, r):
    m, path, nout = rc.write_case(case, with_decoys=False)
    try:
        exp_all = rm.expected_mesh(m)
        import contextlib
        import io

        buf = io.StringIO()
        with contextlib.redirect_stdout(buf):
            ds = osyris.RamsesDataset(nout, path=path)
        prev = {}
        restricted_before = False
        capped_before = False
        r.label(f"ndim_{case['ndim']}")
        kws = []
        for i, call in enumerate(case["calls"]):
            where = f"call {i} {call['k']}"
            try:
                if call["k"] == "repeat":
                    # the very objects an earlier call was given; the fresh dataset gets newly built equal ones
                    kw = kws[call["of"]]
                    call = case["calls"][call["of"]]
                    where += f" (arguments of call {case['calls'][i]['of']} reused: {call['k']})"
                    r.label("argument_objects_reused")
                else:
                    kw = _kwargs(call, m, exp_all)
                kws.append(kw)
            except Exception as e:
                raise RuntimeError(f"harness could not build arguments for {call}: {e!r}")
            if call["k"] == "pred" and call["spec"].get("pos") and not call.get("allaxes") and any(
                    c["k"] == "pred" and c.get("spec", {}).get("pos") for c in case["calls"][:i]):
                r.label("position_criteria_on_fewer_axes_after_position_criteria")
            # fresh execution, with argument objects of its own (what load() does to the caller's dicts is not the
            # subject here: the used dataset gets untouched ones)
            try:
                fresh, fout = rc.quiet_load(osyris, nout, path, **_kwargs(call, m, exp_all))
                fexc = None
            except Exception as e:
                fresh, fexc = None, e
            out = io.StringIO()
            try:
                with contextlib.redirect_stdout(out):
                    ds.load(**kw)
                exc = None
            except Exception as e:
                exc = e
            if (exc is None) != (fexc is None):
                r.bad(["history-changes-exception", call["k"]], f"{where}: on the used dataset {exc!r}, on a fresh one {fexc!r}; "
                      f"calls so far {[c['k'] for c in case['calls'][:i + 1]]}")
                return
            if exc is not None:
                continue
            nfiles = rc.files_opened(out.getvalue())
            ffiles = rc.files_opened(fout)
            produced = set(fresh.keys())
            want_groups = _expected_groups(call, m, (case.get("sink") or {}).get("mode") in ("file", "empty"))
            if produced != want_groups:
                r.bad(["produced-groups", call["k"]], f"{where}: a fresh dataset returned groups {sorted(produced)}, the arguments "
                      f"ask for {sorted(want_groups)}")
                return
            uses_mesh = "mesh" in produced
            if (restricted_before and not uses_mesh) or (capped_before and uses_mesh and not (
                    call["k"] == "pred" and call["spec"].get("level"))):
                r.nontrivial()
                r.label("stale_state_order")
            if set(ds.keys()) != set(prev) | produced:
                r.bad(["group-set", call["k"]], f"{where}: groups {sorted(ds.keys())}, expected {sorted(set(prev) | produced)}")
                return
            for g in produced:
                why = _diff_snap(_snapshot(ds[g]), _snapshot(fresh[g]))
                if why:
                    r.bad(["differs-from-fresh", g, "after=" + (case["calls"][i - 1]["k"] if i else "none"), "call=" + call["k"]],
                          f"{where}: group {g}: {why}; files opened {nfiles} (fresh: {ffiles}); history "
                          f"{[c['k'] for c in case['calls'][:i + 1]]}")
                    return
            for g in set(prev) - produced:
                why = _diff_snap(_snapshot(ds[g]), prev[g])
                if why:
                    r.bad(["untouched-group-changed", g, call["k"]], f"{where}: group {g} not produced by this call but {why}")
                    return
            if "mesh" in produced:
                nrows = len(ds["mesh"]["level"].values) if "level" in ds["mesh"].keys() else (
                    0 if len(ds["mesh"].keys()) == 0 else None)
                if nrows is not None and int(ds.meta["ncells"]) != nrows:
                    r.bad(["meta-ncells-vs-group", call["k"]], f"{where}: meta ncells {ds.meta['ncells']} but the mesh group has {nrows} rows")
                    return
                if nrows == 0:
                    r.label("empty_mesh_result")
            if "mesh" in produced and call["k"] == "pred" and _LAST.get("res") is not None and "level" in fresh["mesh"].keys() \
                    and not _LAST["res"]["level"]:          # (a level criterion truncates the tree: C12's subject)
                # the reference execution shares the process with the history: state kept in the library itself (a module-level
                # default that a call narrows) reaches both.  The writer's model says how many cells the predicates select.
                nq = int(rs.mask(_LAST["res"], m, exp_all).sum())
                nf = len(fresh["mesh"]["level"].values)
                if nf != nq:
                    r.bad(["reference-differs-from-model", "call=" + call["k"]],
                          f"{where}: a fresh dataset in this process returned {nf} cells, the predicates select {nq} of the cells "
                          f"written; history {[c['k'] for c in case['calls'][:i + 1]]}")
                    return
            if "mesh" in produced and int(ds.meta["ncells"]) != int(fresh.meta["ncells"]):
                r.bad(["meta-ncells", call["k"]], f"{where}: {ds.meta['ncells']} vs fresh {fresh.meta['ncells']}")
                return
            if "part" in produced and len(ds["part"].keys()):
                nrows_p = len(ds["part"][list(ds["part"].keys())[0]])
                if int(ds.meta["nparticles"]) != nrows_p:
                    r.bad(["meta-nparticles-vs-group", call["k"]], f"{where}: meta nparticles {ds.meta['nparticles']} but the part group "
                          f"has {nrows_p} rows")
                    return
            if "part" in produced and int(ds.meta["nparticles"]) != int(fresh.meta["nparticles"]):
                r.bad(["meta-nparticles", call["k"]], f"{where}: {ds.meta['nparticles']} vs fresh {fresh.meta['nparticles']}; "
                      f"files {nfiles} vs {ffiles}")
                return
            prev = {g: _snapshot(ds[g]) for g in ds.keys()}
            if call["k"] == "cpu_list" or (ffiles is not None and ffiles < m.ncpu):
                restricted_before = True
                r.label("restricting_call")
            if call["k"] == "pred" and call["spec"].get("level") and rs.level_cap(call["spec"]["level"], m.levelmax) not in (
                    None, m.levelmax):
                capped_before = True
                r.label("capping_call")
    finally:
        rc.cleanup(path)


def subs(ctx):
    return [Sub("history", history, strategy=case_st(), quick=90, thorough=250,
                required={"stale_state_order": 0.15, "restricting_call": 0.25, "capping_call": 0.1})]
