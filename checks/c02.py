"""C02 - Array arithmetic equals arithmetic on the physical quantities it represents (DESIGN.md C02)."""
import warnings

import numpy as np
from hypothesis import strategies as st

from vlib import env
from vlib import strategies as vs
from vlib import unitmodel as um
from vlib.harness import Sub

PROPERTY = "C02"
RULE = ("generated (operator, lhs Array, other operand) triples: operators + - * / neg ** k*a k/a ndarray*a ndarray/a; "
        "other operand kind in Array / python number / np.float64 / ndarray / pint Quantity; dtypes float64/32 int64/32; "
        "shapes 0-d,1-d,2-d and broadcast pairs; unit pairs same / compatible-different / incompatible drawn from the "
        "families of vlib.unitmodel.  Oracle: independent unit model (factor to cgs + dimension exponents, no pint): the "
        "result must be the same physical quantity, have the broadcast shape; + and - on incompatible dimensions must "
        "raise and leave both operands bit-identical.  The (operator x operand kind x dtype) table is also enumerated "
        "exhaustively.  non-trivial = operands in different compatible units, or a non-float64 dtype, or a 0-d/2-d/"
        "broadcast shape; distinct = distinct canonical JSON.")
ASSUMPTIONS = [
    "python numbers and bare ndarrays are dimensionless quantities (the pinned suite requires a_m + 3.0 to raise)",
    "tolerance: 64*eps(result dtype) relative to |a|+|b| for pure arithmetic, 1e-9 when a unit factor takes part",
    "number + Array / number - Array (no reflected method exists) and a Quantity on the left of any operator / an ndarray on "
    "the left of + - are not generated (pint / numpy dispatch those; Quantity * Array returns a Quantity wrapping the Array)",
    "int ** negative python int is not generated (numpy refuses it for plain ndarrays too)",
]
osyris = None


def prepare(ctx):
    global osyris
    osyris = env.import_osyris()


OPS = ["+", "-", "*", "/", "neg", "pow", "rmul", "rdiv", "ndmul", "nddiv"]
BKINDS = ["A", "A", "num", "npf", "nd", "Q"]
EXPONENTS = [-2, -1, 0, 0.5, 1, 2, 3, -1.0, 2.0, 0.15, 2.35, 0.01, 1.4, 1.05, 0.3]      # incl. fractions with large denominators


@st.composite
def case_st(draw, op=None, bkind=None, dtype=None):
    op = op or draw(st.sampled_from(OPS))
    sa, sb = draw(vs.shape_pairs())
    ua, ub, rel = draw(vs.unit_pairs())
    dta = dtype or draw(st.sampled_from(vs.DTYPES))
    a = draw(vs.array_specs(units=[ua], dtypes=[dta], shape=sa, specials=True))
    case = {"op": op, "a": a, "rel": rel}
    if op == "neg":
        return case
    if op == "pow":
        ks = EXPONENTS if not dta.startswith("int") else [0, 0.5, 1, 2, 3, -1.0, 2.0]
        case["k"] = draw(st.sampled_from(ks))
        case["k_as"] = draw(st.sampled_from(["py", "py", "npf", "nd0", "npi"]))
        return case
    if op in ("rmul", "rdiv"):
        kind = draw(st.sampled_from(["num", "npf", "int", "npf32", "npi64"]))
        v = draw(st.sampled_from([2, 3, -4, 10])) if kind in ("int", "npi64") else draw(
            vs.magnitudes("float64", 1, allow_zero=False))[0]
        case["b"] = {"k": "num" if kind == "int" else "npf" if kind.startswith("np") else kind, "v": v}
        if kind == "npf32":
            case["b"]["dt"] = "float32"          # numpy scalars that are not python float / int subclasses
        elif kind == "npi64":
            case["b"]["dt"] = "int64"
        return case
    if op in ("ndmul", "nddiv"):
        case["b"] = draw(vs.array_specs(kind="nd", dtypes=[draw(st.sampled_from(vs.DTYPES))], shape=sb))
        return case
    bk = bkind or draw(st.sampled_from(BKINDS))
    if bk in ("A", "Q"):
        case["b"] = draw(vs.array_specs(kind=bk, units=[ub], dtypes=[draw(st.sampled_from(vs.DTYPES))],
                                        shape=sb, specials=(bk == "A")))
        if bk == "Q" and not sb and draw(st.booleans()):
            case["b"]["pyscalar"] = True          # 2.0 * units("km"): the magnitude is a plain python number
        if bk == "A" and rel == "same" and sa == sb and draw(st.integers(0, 5)) == 0:
            case["b_is_a"] = True                 # a + a, a * a: both operands are the same object
    elif bk == "nd":
        case["b"] = draw(vs.array_specs(kind="nd", dtypes=[draw(st.sampled_from(vs.DTYPES))], shape=sb))
    else:
        if draw(st.booleans()):
            v = draw(st.sampled_from([0, 1, 2, -3, 7]))
            case["b"] = {"k": "num", "v": v}
        else:
            case["b"] = {"k": bk, "v": draw(vs.magnitudes("float64", 1))[0]}
            if bk == "npf":
                case["b"]["dt"] = draw(st.sampled_from(["float64", "float64", "float32", "int64"]))
                if case["b"]["dt"] == "int64":
                    case["b"]["v"] = draw(st.sampled_from([1, 2, -3, 7]))
    return case


def _tol(got_dtype, unit_factor_involved):
    dt = np.dtype(got_dtype)
    if dt.kind == "f" and dt.itemsize == 4:
        return 64 * float(np.finfo(np.float32).eps)
    return 1e-9 if unit_factor_involved else 64 * float(np.finfo(np.float64).eps)


def _snap(x):
    if isinstance(x, (osyris.Array,)):
        return ("A", x._array.tobytes(), str(x._array.dtype), x._array.shape, str(x.unit))
    if isinstance(x, np.ndarray):
        return ("nd", x.tobytes(), str(x.dtype), x.shape)
    if hasattr(x, "magnitude"):
        return ("Q", np.asarray(x.magnitude).tobytes(), str(x.units))
    return ("num", repr(x))


def arith(case, r):
    op = case["op"]
    a = vs.build(case["a"], osyris)
    av, au = vs.model_of(case["a"])
    b = bv = bu = None
    if "b" in case:
        b = vs.build(case["b"], osyris)
        bv, bu = vs.model_of(case["b"])
        if case.get("b_is_a"):
            b, bv, bu = a, av, au
            r.label("same_object_on_both_sides")
    dta = case["a"]["dtype"]
    r.label("op_" + op, "dtype_" + dta)
    if b is not None:
        r.label("bkind_" + case["b"]["k"])
    diff_units = b is not None and bu is not None and um.same_dims(au, bu) and abs(au[0] / bu[0] - 1) > 1e-12
    shape_a = tuple(case["a"]["shape"])
    shape_b = tuple(case["b"].get("shape", [])) if b is not None else shape_a
    interesting_shape = len(shape_a) != 1 or shape_a != shape_b
    r.nontrivial(diff_units or dta != "float64" or interesting_shape)
    if diff_units:
        r.label("compatible_different_units")
    if dta != "float64":
        r.label("non_float64")

    if op == "pow" and case.get("k_as") == "nd0" and um.is_dimensionless(au) and abs(au[0] - 1) > 0:
        # an ndarray exponent on a scaled dimensionless base (cm/m) goes through pint's dimensionless branch;
        # the property speaks of numbers k, the 0-d ndarray form is only generated for ordinary bases
        r.label("skipped_scaled_dimensionless_ndexp")
        return
    snap_a, snap_b = _snap(a), (_snap(b) if b is not None else None)
    with warnings.catch_warnings(), np.errstate(all="ignore"):
        warnings.simplefilter("ignore")
        try:
            if op == "+":
                res = a + b
            elif op == "-":
                res = a - b
            elif op == "*":
                res = a * b
            elif op == "/":
                res = a / b
            elif op == "neg":
                res = -a
            elif op == "pow":
                k = case["k"]
                if case.get("k_as") == "npf":
                    k = np.float64(k)
                elif case.get("k_as") == "nd0":
                    k = np.array(k)
                elif case.get("k_as") == "npi" and float(k) == int(k) and not (dta.startswith("int") and k < 0):
                    k = np.int64(k)       # (numpy refuses integer ** negative integer for plain arrays too)
                res = a ** k
            elif op in ("rmul", "ndmul"):
                res = b * a
            elif op in ("rdiv", "nddiv"):
                res = b / a
            raised = None
        except Exception as e:
            raised = e
            res = None
    # operands must never be modified by a binary operator
    if _snap(a) != snap_a or (b is not None and _snap(b) != snap_b):
        r.bad(["operand-modified", op], f"operands changed by {op}")

    # ---------------- expected
    want_shape = np.broadcast_shapes(shape_a, shape_b) if b is not None else shape_a
    factor_involved = False
    with np.errstate(all="ignore"), warnings.catch_warnings():
        warnings.simplefilter("ignore")
        if op in ("+", "-"):
            if not um.same_dims(au, bu):
                r.label("incompatible_addsub")
                if raised is None:
                    r.bad(["incompatible-no-raise", op], f"{case['a']['unit']} {op} {case['b'].get('unit', 'number')} "
                          f"returned {res!r}")
                return
            ac, bc = um.to_cgs(av, au), um.to_cgs(bv, bu)
            want = ac + bc if op == "+" else ac - bc
            scale = np.abs(ac) + np.abs(bc)
            wdims = au
            factor_involved = abs(au[0] / bu[0] - 1) > 0
        elif op in ("*", "rmul", "ndmul"):
            want = um.to_cgs(av, au) * um.to_cgs(bv, bu)
            wdims = um.umul(au, bu)
            scale = np.abs(want)
        elif op == "/":
            want = um.to_cgs(av, au) / um.to_cgs(bv, bu)
            wdims = um.udiv(au, bu)
            scale = np.abs(want)
        elif op in ("rdiv", "nddiv"):
            want = um.to_cgs(bv, bu) / um.to_cgs(av, au)
            wdims = um.udiv(bu, au)
            scale = np.abs(want)
        elif op == "neg":
            want = -um.to_cgs(av, au)
            wdims = au
            scale = np.abs(want)
        elif op == "pow":
            k = case["k"]
            want = np.power(av.astype(np.float64), float(k)) * (au[0] ** float(k))
            wdims = um.upow(au, k)
            scale = np.abs(want)
    if raised is not None:
        r.bad(["raises", op, type(raised).__name__, "dtype=" + dta], f"{op} raised {raised!r}")
        return
    if not isinstance(res, osyris.Array):
        r.bad(["result-type", op], f"{type(res).__name__}")
        return
    if tuple(res.shape) != tuple(want_shape):
        r.bad(["shape", op], f"got {res.shape} want {want_shape}")
        return
    try:
        gu = um.from_pint(res.unit)
    except um.UnknownUnit as e:
        raise RuntimeError(f"unit model does not know {e}")
    if not um.same_dims(gu, wdims):
        kind = "unit-dropped" if um.is_dimensionless(gu) else "unit-wrong"
        r.bad([kind, "result-dtype=" + str(res.dtype)], f"{op}: result unit {res.unit} but expected dims {wdims[1]}; "
              f"a={case['a']['dtype']}[{case['a']['unit']}] b={case.get('b')}")
        return
    got = um.to_cgs(res.values, gu)
    factor_involved = factor_involved or abs(gu[0] - 1) > 0 or abs(au[0] - 1) > 0 or (
        bu is not None and abs(bu[0] - 1) > 0)
    dts = [res.dtype, np.dtype(dta)] + ([np.dtype(case["b"]["dtype"])] if b is not None and "dtype" in case["b"] else []) + (
        [np.dtype(case["b"]["dt"])] if b is not None and "dt" in case["b"] else [])
    lowp = any(d.kind == "f" and d.itemsize == 4 for d in dts)
    rtol = _tol(np.float32 if lowp else np.float64, factor_involved)
    with np.errstate(all="ignore"):
        scale = np.broadcast_to(np.where(np.isfinite(scale), scale, 0.0), np.shape(want))
        ok = np.isclose(got, want, rtol=0, atol=0, equal_nan=True) | (np.abs(got - want) <= rtol * scale) | (got == want)
        # float32 overflow to inf is numpy's own behaviour for that dtype
        if np.dtype(res.dtype).itemsize == 4:
            ok |= np.isinf(got) & (np.abs(want) > 1e38 * gu[0])
    if not np.all(ok):
        i = int(np.argmin(ok.ravel())) if np.ndim(ok) else 0
        r.bad(["values", op], f"{op}: got {np.ravel(got)[i]!r} want {np.ravel(want)[i]!r} (cgs); "
              f"a={case['a']} b={case.get('b')} k={case.get('k')}")


def _table_cases():
    """Exhaustive (operator x operand kind x dtype) table on fixed small operands."""
    out = []
    for op in ["+", "-", "*", "/"]:
        for bk in ["A", "num", "npf", "nd", "Q"]:
            for dta in vs.DTYPES:
                for dtb in vs.DTYPES:
                    for ua, ub in [("m", "m"), ("m", "cm"), ("dimensionless", "dimensionless")]:
                        if bk in ("num", "npf", "nd") and op in "+-" and ua != "dimensionless":
                            continue
                        a = {"k": "A", "dtype": dta, "shape": [3], "vals": [1, 2, 4], "unit": ua}
                        if bk in ("A", "Q"):
                            b = {"k": bk, "dtype": dtb, "shape": [3], "vals": [3, 5, 8], "unit": ub}
                        elif bk == "nd":
                            b = {"k": "nd", "dtype": dtb, "shape": [3], "vals": [3, 5, 8]}
                        else:
                            b = {"k": bk, "v": 2.0 if dtb.startswith("float") else 2}
                        out.append({"op": op, "a": a, "b": b, "rel": "table"})
    for op in ["neg", "pow"]:
        for dta in vs.DTYPES:
            for k in ([0, 0.5, 1, 2, 3] if op == "pow" else [None]):
                c = {"op": op, "a": {"k": "A", "dtype": dta, "shape": [3], "vals": [1, 2, 4], "unit": "km"}, "rel": "table"}
                if k is not None:
                    c["k"] = k
                    out.append(dict(c, k_as="nd0"))
                    out.append(dict(c, k_as="npf"))
                out.append(c)
    for op in ["rmul", "rdiv", "ndmul", "nddiv"]:
        for dta in vs.DTYPES:
            a = {"k": "A", "dtype": dta, "shape": [3], "vals": [1, 2, 4], "unit": "g"}
            if op.startswith("nd"):
                for dtb in vs.DTYPES:
                    out.append({"op": op, "a": a, "b": {"k": "nd", "dtype": dtb, "shape": [3], "vals": [3, 5, 8]},
                                "rel": "table"})
            else:
                for b in ({"k": "num", "v": 2}, {"k": "num", "v": 2.5}, {"k": "npf", "v": 2.5}):
                    out.append({"op": op, "a": a, "b": b, "rel": "table"})
    return out


def subs(ctx):
    return [
        Sub("table", arith, cases=_table_cases()),
        Sub("arith", arith, strategy=case_st(), quick=3000, thorough=20000,
            required={"compatible_different_units": 0.1, "non_float64": 0.4, "incompatible_addsub": 0.02}),
    ]
