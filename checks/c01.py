"""C01 - Full load returns every leaf cell exactly once with true geometry, values, units (DESIGN.md C01)."""
import numpy as np

from vlib import env
from vlib import ramses_cases as rc
from vlib import ramses_model as rm
from vlib.harness import Sub

PROPERTY = "C01"
RULE = ("Hypothesis-generated RAMSES outputs (plain-data case -> explicit AMR tree model -> files written record by "
        "record by an independent writer): ndim 1-3, 1-9 CPUs, levelmin 1-5, up to 5 refined levels, 0-6 boundary "
        "regions (nx=3), ghost copies of foreign octs with poisoned values in the other CPU slots, fabricated boundary "
        "octs outside the box, noutput 1-30, 8/16-byte bound keys, 2-14 hydro variables from the RAMSES vocabulary, "
        "optional grav and rt files, unit_d/l/t log-uniform in 1e-30..1e30, output number explicit or -1 with a decoy "
        "lower-numbered output; sequences in which outputs appear in one directory between loads with nout=-1.  Oracle: the model's leaf table (centre on the exact 2^-(levelmax+1) lattice, dx, "
        "level, owner cpu, every variable x RAMSES unit factor, unit dims, vector assembly, derived mass and B_field, "
        "meta ncells/time) compared as row multisets.  non-trivial = >=2 CPUs and >=1 ghost oct in a foreign slot and "
        ">=2 distinct leaf levels; distinct = distinct canonical JSON of the case.")
ASSUMPTIONS = [
    "the RAMSES record layout of DESIGN.md Appendix A (validated by osyris' own loader reading the files exactly)",
    "one active coarse cell per dimension (nx in {1,3}), the only geometry osyris' position formula describes",
    "trees of at most ~2500 cells; rtol 1e-12 on physical values",
]
osyris = None


def prepare(ctx):
    global osyris
    osyris = env.import_osyris()


def full_load(case, r):
    m, path, nout = rc.write_case(case)
    try:
        try:
            ds, out = rc.quiet_load(osyris, nout, path)
        except Exception as e:
            r.bad(["load-raises", type(e).__name__], f"{e!r}; ndim={case['ndim']} ncpu={case['ncpu']} "
                  f"nboundary={case['nboundary']} levels={case['levelmin']}-{case['levelmax']} vars={case['hydro_vars']}")
            return
        nleaves = rm.n_leaves(m)
        levels_with_leaves = sum(1 for lv in m.levels if (~lv.refined).any())
        r.label(f"ndim_{case['ndim']}")
        if case.get("deep"):
            r.label(f"deep_tree_levelmax_{case['levelmax']}")
        for lab, cond in [("multi_cpu", case["ncpu"] > 1), ("ghosts", m.n_ghost_octs > 0),
                          ("boundaries", case["nboundary"] > 0), ("noutput_gt1", case["noutput"] > 1),
                          ("key16", case["keysize"] == 16), ("grav", case["grav"]), ("rt", bool(case["rt_vars"])),
                          ("minus1", case["use_minus1"]), ("multi_level", levels_with_leaves >= 2),
                          ("mhd", any(v.startswith("B_") for v in case["hydro_vars"])),
                          ("cpu_two_digits", case["ncpu"] >= 10),
                          ("momentum_or_energy_variable", any(v.startswith("momentum_") or v in ("energy", "radiative_energy")
                                                              for v in case["hydro_vars"])),
                          ("B_left_x_spelling", any(v.startswith("B_left_") for v in case["hydro_vars"]))]:
            if cond:
                r.label(lab)
        r.nontrivial(case["ncpu"] > 1 and m.n_ghost_octs > 0 and levels_with_leaves >= 2)
        if len(set(m.nxyz[: case["ndim"]])) > 1:
            r.label("coarse_grid_anisotropic")          # e.g. nx,ny,nz = 3,3,1 or 1,1,3: walls in some dimensions only
            r.label("nxyz_" + "".join(str(v) for v in m.nxyz))
        if "mesh" not in ds.keys():
            r.bad(["mesh-group-missing"], f"groups {list(ds.keys())}")
            return
        res = rc.compare_mesh(osyris, ds["mesh"], m, r)
        if res is None:
            return
        if int(ds.meta["ncells"]) != nleaves:
            r.bad(["meta", "ncells"], f"meta ncells {ds.meta['ncells']} != {nleaves}")
        try:
            t, u = rc.phys(ds.meta["time"])
            if not rc.dims_close(u[1], (0, 0, 1, 0)) or abs(float(t) - case["time"] * case["unit_t"]) > 1e-12 * abs(
                    case["time"] * case["unit_t"]):
                r.bad(["meta", "time"], f"meta time {ds.meta['time']!r} expected {case['time'] * case['unit_t']} s")
        except Exception as e:
            r.bad(["meta", "time-raises", type(e).__name__], repr(e))
    finally:
        rc.cleanup(path)


def latest_output(case, r):
    """nout=-1 must resolve to the highest-numbered output present *at the time of the call*, also when outputs
    appear between calls in the same process (and explicit numbers must keep addressing their own output)."""
    import os

    from vlib import env as _env
    path = _env.scratch_dir("ramses_seq_")
    r.nontrivial()
    try:
        models = {}
        numbers = sorted(set(case["numbers"]))
        for k, num in enumerate(numbers):
            c = dict(case["base"], nout=num, seed=case["base"]["seed"] + 101 * k, use_minus1=False)
            models[num] = rm.build_model(c)
            rm.write_output(models[num], path)
            for nout, want in ((-1, num), (numbers[0], numbers[0])):
                try:
                    ds, _ = rc.quiet_load(osyris, nout, path)
                except Exception as e:
                    r.bad(["latest-output", "raises", type(e).__name__], f"nout={nout} after writing {numbers[:k + 1]}: {e!r}")
                    return
                if rc.compare_mesh(osyris, ds["mesh"], models[want], r, tag=f"latest(nout={nout})") is None:
                    r.records[-1]["detail"] += f"; outputs present {numbers[:k + 1]}, nout={nout} must address output {want}"
                    return
    finally:
        rc.cleanup(path)


@__import__("hypothesis").strategies.composite
def latest_case_st(draw):
    from hypothesis import strategies as st
    base = draw(rc.output_cases(with_part=False, with_sink=False, max_cpu=3))
    base["max_cells"] = 300
    return {"base": base, "numbers": draw(st.lists(st.integers(1, 120), min_size=2, max_size=3, unique=True))}


@__import__("hypothesis").strategies.composite
def full_case_st(draw):
    from hypothesis import strategies as st
    case = draw(rc.output_cases(with_part=False, with_sink=False))
    if case["ndim"] >= 2 and draw(st.integers(0, 9)) == 0:
        # a very deep tree (one chain of refinements): Hilbert keys beyond the fifteen digits the info file prints
        case["levelmin"] = draw(st.sampled_from([2, 3]))
        case["levelmax"] = draw(st.sampled_from([17, 20, 21, 21] if case["ndim"] == 3 else [24, 24, 25]))
        case["refine_p"] = [0.0]
        case["deep_toward"] = [draw(st.sampled_from([0.25, 0.5, 0.75])) for _ in range(3)]
        case["ncpu"] = max(case["ncpu"], 3)
        case["ordering"] = "hilbert"
        case["key_mode"] = draw(st.sampled_from(["uniform", "random", "cube"]))
        case["key_format"] = "e23.15"
        case["deep"] = True
    return case


def subs(ctx):
    return [Sub("latest_output", latest_output, strategy=latest_case_st(), quick=15, thorough=60),
            Sub("full_load", full_load, strategy=full_case_st(),
                quick=150, thorough=700,
                required={"multi_cpu": 0.5, "ghosts": 0.3, "boundaries": 0.2, "ndim_1": 0.08, "ndim_2": 0.15,
                          "ndim_3": 0.15, "multi_level": 0.4, "coarse_grid_anisotropic": 0.06})]
