"""C05 - 2-D histogram bins every point exactly once, independent of thread schedule (DESIGN.md C05)."""
import os
import warnings

# an index one past the upper end of an axis is a silent out-of-bounds write in the compiled kernel: make it raise
# (must be set before numba is imported; affects this check's worker processes only)
os.environ.setdefault("NUMBA_BOUNDSCHECK", "1")

import numpy as np
from hypothesis import strategies as st

from vlib import env
from vlib.harness import Sub

PROPERTY = "C05"
RULE = ("points built by construction relative to a generated grid (resolution 1-64, linear or log axes, explicit or "
        "automatic limits): bin index + in-bin fraction in [.05,.95] (decidable), fractions within 1e-13 of an edge "
        "(tolerant), points 0.05-0.95 bin widths below the lower / above the upper limit on each axis, far outside, "
        "NaN/+-inf, all-in-one-bin, N from 0 to 3000 (schedule cases: 2e5-2e6); 0-3 value layers of integer-valued "
        "floats with operation sum/mean at layer or call level; both osyris.histogram2d(plot=False) and the kernel "
        "osyris.plot.utils.hist2d.  Oracle: grid rebuilt from the returned centres (must span the requested limits / "
        "contain every finite point), floor-binning in float64 with the tolerant class decided a posteriori on that "
        "grid (|t-round(t)|<1e-9): count_strict <= got <= count_loose per bin, bins untouched by tolerant points exact "
        "(counts, sums, means, mask), totals conserved.  schedule: identical masked arrays for 1/2/3/4/8/16 numba "
        "threads, permuted rows and repetitions, equal to the exact oracle.  non-trivial = >=2 points share a bin and "
        ">=1 point lies within one bin width outside a limit (schedule: N>=1e5, >=2 threads, a bin with >=1000 points).")
ASSUMPTIONS = [
    "points exactly on a bin edge (incl. x == xmax) may go to either neighbouring bin / in or out",
    "explicit limits are python floats, as the signature documents; integer-valued layer data makes sums exact",
    "thread schedules are sampled (thread count x permutation x repetition), not enumerated",
    "coordinates are 0 or at least 1e-300 in magnitude (no denormals); grids with bins narrower than 256 ulp are not judged",
]
osyris = None
numba = None
Layer = None


def prepare(ctx):
    global osyris, numba, Layer
    osyris = env.import_osyris()
    from osyris.core import Layer as _L
    Layer = _L
    import numba as _nb
    numba = _nb


case_st = st.fixed_dictionaries({
    "res": st.sampled_from([1, 1, 2, 3, 4, 5, 8, 16, 17, 32, 64]),
    "n": st.sampled_from([0, 1, 2, 5, 20, 100, 500, 3000]),
    "seed": st.integers(0, 2 ** 31 - 2),
    "logx": st.booleans(), "logy": st.booleans(), "loglog": st.sampled_from([False, False, False, True]),
    "limits": st.sampled_from(["explicit", "explicit", "auto", "mixed"]),
    "lo": st.sampled_from([-3.5, 0.0, 1.0, 2.5e-3, 1.0e4, -1.0e-2]),
    "span": st.sampled_from([1.0, 7.0, 1e-3, 3.3e5]),
    "p_outside_near": st.sampled_from([0.0, 0.1, 0.3, 0.3]),
    "p_edge": st.sampled_from([0.0, 0.0, 0.1, 0.2]),
    "p_special": st.sampled_from([0.0, 0.0, 0.05]),
    "one_bin": st.sampled_from([False, False, False, True]),
    "layers": st.lists(st.fixed_dictionaries({"op": st.sampled_from([None, "sum", "mean"]),
                                              "as_layer": st.booleans(),
                                              # a colour norm on the layer: how it would be drawn, not what is binned
                                              "norm": st.sampled_from([None, None, None, "log"]),
                                              # the layer is a component (.x/.y/.z) of a Layer that holds a Vector
                                              "component": st.sampled_from([None, None, None, "x", "y", "z"]),
                                              "same_as_prev": st.sampled_from([False, False, True])}), max_size=3),
    "call_op": st.sampled_from([None, "sum", "mean"]),
    "api": st.sampled_from(["public", "public", "kernel"]),
    # kernel only: a different number of bins along y
    "res_y": st.sampled_from([None, None, 1, 2, 3, 7, 33]),
    # public API, resolution >= 2: which of the four limits are given (None = follow "limits")
    "per_limit": st.one_of(st.none(), st.none(), st.lists(st.booleans(), min_size=4, max_size=4)),
    # explicit limits as plain numbers (in the unit of the axis) or as quantities in that unit
    "limit_form": st.sampled_from(["number", "number", "number", "quantity"]),
    # all finite coordinates of an axis identical (degenerate automatic range), at 0, a negative or a positive value
    "identical_x": st.sampled_from([None] * 12 + [0.0, -3.5, 2.5]),
    "identical_y": st.sampled_from([None] * 12 + [0.0, -3.5, 2.5]),
    "gen": st.just(2),
})


def _axis(rng, n, res, lo, span, log, p_out, p_edge, p_special, one_bin, identical=None, gen=1):
    # gen: generator version stored in the case (saved replays of version 1 must keep producing the same points)
    """-> (values, (lower, upper) in linear space)"""
    if log:
        lo_t = np.log10(abs(lo) + 1.0)      # transformed lower limit
        span_t = min(np.log10(span + 1.0) + 0.5, 6.0)
    else:
        lo_t, span_t = lo, span
    d = span_t / res
    ib = rng.randint(0, res, size=n)
    if one_bin and n:
        ib[:] = ib[0]
    f = rng.uniform(0.05, 0.95, size=n)
    u = rng.random_sample(n)
    near_lo = u < p_out / 2
    near_hi = (u >= p_out / 2) & (u < p_out)
    far = (u >= p_out) & (u < p_out + 0.03)
    ib = np.where(near_lo, -1, ib)
    ib = np.where(near_hi, res, ib)
    # far outside, including indices that wrap into range when truncated to 32 bits
    far_bins = [-7, res + 5] if gen < 2 else [-7, res + 5, 2 ** 32 + res // 2, -(2 ** 32) + res // 2, 2 ** 31]
    ib = np.where(far, rng.choice(far_bins, size=n), ib)
    edge = rng.random_sample(n) < p_edge
    f = np.where(edge, rng.choice([0.0, 1e-14, 1.0 - 1e-14], size=n), f)
    t = lo_t + (ib + f) * d
    x = 10.0 ** t if log else t
    lower = 10.0 ** lo_t if log else lo_t
    upper = 10.0 ** (lo_t + span_t) if log else lo_t + span_t
    # points within a few ulp of the limits (floating-point boundary class)
    ulp = rng.random_sample(n) < p_edge
    choices = np.array([lower, np.nextafter(lower, np.inf), np.nextafter(upper, -np.inf),
                        np.nextafter(np.nextafter(upper, -np.inf), -np.inf), upper, np.nextafter(lower, -np.inf)])
    choices = np.where(np.abs(choices) < 1e-300, 0.0, choices)        # no denormals: |x| >= 1e-300 or exactly 0
    x = np.where(ulp, rng.choice(choices, size=n), x)
    if identical is not None:
        x = np.full(n, 1.0 if (log and identical <= 0) else float(identical))
    sp = rng.random_sample(n) < p_special
    # (on a log axis zero and negative numbers have no finite transformed coordinate either)
    x = np.where(sp, rng.choice([np.nan, np.inf, -np.inf] + ([0.0, -1.0, -x.max() if n else -1.0] if (log and gen >= 2) else []),
                                size=n), x)
    lower = 10.0 ** lo_t if log else lo_t
    upper = 10.0 ** (lo_t + span_t) if log else lo_t + span_t
    return x, (float(lower), float(upper))


def _edges_from_centres(c, log, limits):
    """Rebuild the bin edges of one axis from the returned centres (None if not possible)."""
    c = np.asarray(c, dtype=np.float64)
    n = len(c)
    if n == 1:
        return None if limits is None else np.array([limits[0], limits[1]])
    if log:
        dl = np.log10(c[1] / c[0])
        e0 = 2.0 * c[0] / (1.0 + 10.0 ** dl)
        l0 = np.log10(e0)
        return 10.0 ** (l0 + dl * np.arange(n + 1))
    d = c[1] - c[0]
    e0 = c[0] - 0.5 * d
    return e0 + d * np.arange(n + 1)


def _frac_eps(x, edges, log):
    """float resolution of x expressed in bin widths"""
    n = len(edges) - 1
    with np.errstate(all="ignore"):
        if log:
            w = (np.log10(edges[-1]) - np.log10(edges[0])) / n
            v = np.abs(np.log10(x)) + np.abs(np.log10(edges[0]))
        else:
            w = (edges[-1] - edges[0]) / n
            v = np.abs(x) + np.abs(edges[0])
        e = 32 * np.finfo(np.float64).eps * v / abs(w)
    return np.where(np.isfinite(e), e, 0.0)


def _frac_coord(x, edges, log):
    n = len(edges) - 1
    with np.errstate(all="ignore"):
        if log:
            t = (np.log10(x) - np.log10(edges[0])) / (np.log10(edges[-1]) - np.log10(edges[0])) * n
        else:
            t = (x - edges[0]) / (edges[-1] - edges[0]) * n
    return t


def _expected(tx, ty, res, values, epsx=0.0, epsy=0.0, resy=None):
    """-> strict counts, loose extra counts, touched mask, sums (strict points only)
    epsx/epsy: additional uncertainty of the fractional coordinates (float resolution of x relative to a bin)"""
    resy = res if resy is None else resy
    eps = 1e-9 * max(res, resy, 1)
    fin = np.isfinite(tx) & np.isfinite(ty)
    ax0, ax1 = np.floor(tx - eps - epsx), np.floor(tx + eps + epsx)
    ay0, ay1 = np.floor(ty - eps - epsy), np.floor(ty + eps + epsy)
    tol = fin & ((ax0 != ax1) | (ay0 != ay1))
    strict = fin & ~tol
    ix = np.floor(tx)
    iy = np.floor(ty)
    inr = strict & (ix >= 0) & (ix < res) & (iy >= 0) & (iy < resy)
    counts = np.zeros((resy, res), dtype=np.int64)
    np.add.at(counts, (iy[inr].astype(int), ix[inr].astype(int)), 1)
    sums = np.zeros((len(values), resy, res))
    for k, v in enumerate(values):
        np.add.at(sums[k], (iy[inr].astype(int), ix[inr].astype(int)), v[inr])
    loose = np.zeros((resy, res), dtype=np.int64)
    for i in np.nonzero(tol)[0]:
        # every cell between the two extreme assignments is admissible
        a0, a1 = int(max(ax0[i], -1)), int(min(ax1[i], res))
        b0, b1 = int(max(ay0[i], -1)), int(min(ay1[i], resy))
        for a in range(a0, a1 + 1):
            for b in range(b0, b1 + 1):
                if 0 <= a < res and 0 <= b < resy:
                    loose[b, a] += 1
    return counts, loose, int(tol.sum()), sums


def binning(case, r):
    rng = np.random.RandomState(case["seed"])
    res, n = case["res"], case["n"]
    logx = case["logx"] or case["loglog"]
    logy = case["logy"] or case["loglog"]
    gen = case.get("gen", 1)
    resy = (case.get("res_y") or res) if case["api"] == "kernel" else res
    x, xl = _axis(rng, n, res, case["lo"], case["span"], logx, case["p_outside_near"], case["p_edge"],
                  case["p_special"], case["one_bin"], case.get("identical_x"), gen)
    y, yl = _axis(rng, n, resy, case["lo"] * 0.5 + 1.0, case["span"] * 2.0, logy, case["p_outside_near"], case["p_edge"],
                  case["p_special"], case["one_bin"], case.get("identical_y"), gen)
    if case.get("identical_x") is not None or case.get("identical_y") is not None:
        r.label("identical_coordinates")
    if resy != res:
        r.label("kernel_nx_ne_ny")
    values = []
    for li, spec in enumerate(case["layers"]):
        if li > 0 and spec.get("same_as_prev"):
            values.append(values[-1])          # the very same data (and, below, the same Array object)
        else:
            values.append(rng.randint(-50, 50, size=n).astype(np.float64))
    limits = case["limits"]
    explicit_x = limits in ("explicit", "mixed")
    explicit_y = limits == "explicit"
    # which of xmin, xmax, ymin, ymax are passed
    given = [explicit_x, explicit_x, explicit_y, explicit_y]
    if case.get("per_limit") and res >= 2 and case["api"] == "public":
        given = list(case["per_limit"])
        explicit_x = given[0] and given[1]
        explicit_y = given[2] and given[3]
        if given[0] != given[1] or given[2] != given[3]:
            r.label("one_sided_limits")
    finx = np.isfinite(x) & ((x > 0) if logx else True)
    finy = np.isfinite(y) & ((y > 0) if logy else True)
    r.label("api_" + case["api"], "limits_" + limits, f"log_{int(logx)}{int(logy)}")

    if case["api"] == "kernel":
        # the kernel takes transformed coordinates and limits
        from osyris.plot.utils import hist2d

        tx_in = np.log10(x) if logx else x
        ty_in = np.log10(y) if logy else y
        lxl = (np.log10(xl[0]), np.log10(xl[1])) if logx else xl
        lyl = (np.log10(yl[0]), np.log10(yl[1])) if logy else yl
        vals = np.array(values) if values else np.ones((1, n))
        with warnings.catch_warnings(), np.errstate(all="ignore"):
            warnings.simplefilter("ignore")
            try:
                out, counts = hist2d(x=np.ascontiguousarray(tx_in, dtype=np.float64),
                                     y=np.ascontiguousarray(ty_in, dtype=np.float64),
                                     values=np.ascontiguousarray(vals, dtype=np.float64),
                                     xmin=float(lxl[0]), xmax=float(lxl[1]), nx=res, ymin=float(lyl[0]), ymax=float(lyl[1]), ny=resy)
            except Exception as e:
                r.bad(["kernel-raises", type(e).__name__], repr(e))
                return
        tx = (tx_in - lxl[0]) / (lxl[1] - lxl[0]) * res
        ty = (ty_in - lyl[0]) / (lyl[1] - lyl[0]) * resy
        with np.errstate(all="ignore"):
            ec, el, ntol, es = _expected(tx, ty, res, list(vals),
                                         _frac_eps(tx_in, np.linspace(lxl[0], lxl[1], res + 1), False),
                                         _frac_eps(ty_in, np.linspace(lyl[0], lyl[1], resy + 1), False), resy=resy)
        _judge(case, r, counts, None, ec, el, ntol, es, [None] * len(vals), out, tx, ty, res, kernel=True, resy=resy)
        return

    if n == 0 or not np.any(finx & finy) and (not explicit_x or not explicit_y):
        # automatic limits need at least one finite point; nothing is stated for that call
        if not (explicit_x and explicit_y):
            r.label("skipped_no_finite_point_for_auto_limits")
            return
    X = osyris.Array(values=x, unit="cm", name="x")
    Y = osyris.Array(values=y, unit="g", name="y")
    layers = []
    eff_ops = []
    prev_arr = None
    for li, (spec, v) in enumerate(zip(case["layers"], values)):
        if li > 0 and spec.get("same_as_prev") and prev_arr is not None:
            arr = prev_arr
            r.label("layers_share_array")
        else:
            arr = osyris.Array(values=v, unit="K", name="lay")
        prev_arr = arr
        if spec["as_layer"] and spec.get("component"):
            c = spec["component"]
            oth = osyris.Array(values=np.zeros_like(np.asarray(v, dtype=np.float64)), unit="K")
            vec = osyris.Vector(**{k: (arr if k == c else oth) for k in "xyz"}, name="lay")
            lkw = {"norm": spec["norm"]} if spec.get("norm") else {}
            vl = Layer(vec, operation=spec["op"], **lkw) if spec["op"] else Layer(vec, **lkw)
            layers.append(getattr(vl, c))
            eff_ops.append(spec["op"] or case["call_op"] or "sum")
            r.label("layer_is_vector_component")
        elif spec["as_layer"]:
            lkw = {"norm": spec["norm"]} if spec.get("norm") else {}
            if lkw:
                r.label("layer_with_log_norm")
            layers.append(Layer(arr, operation=spec["op"], **lkw) if spec["op"] else Layer(arr, **lkw))
            eff_ops.append(spec["op"] or case["call_op"] or "sum")
        else:
            layers.append(arr)
            eff_ops.append(case["call_op"] or "sum")
    kw = {"plot": False, "resolution": res, "logx": case["logx"], "logy": case["logy"], "loglog": case["loglog"]}
    if case["call_op"]:
        kw["operation"] = case["call_op"]
    for nm, g, val in (("xmin", given[0], xl[0]), ("xmax", given[1], xl[1]), ("ymin", given[2], yl[0]), ("ymax", given[3], yl[1])):
        if g:
            kw[nm] = val * osyris.units("cm" if nm[0] == "x" else "g") if case.get("limit_form") == "quantity" else val
            if case.get("limit_form") == "quantity":
                r.label("limits_given_as_quantities")
    with warnings.catch_warnings(), np.errstate(all="ignore"):
        warnings.simplefilter("ignore")
        try:
            p = osyris.histogram2d(X, Y, *layers, **kw)
        except Exception as e:
            if not np.any(finx) or not np.any(finy):
                r.label("skipped_no_finite_point_for_auto_limits")
                return
            r.bad(["raises", type(e).__name__, "limits=" + limits], f"{e!r}; case={ {k: case[k] for k in ('res', 'n', 'limits', 'logx', 'logy', 'loglog')} }")
            return
    ex = _edges_from_centres(p.x, logx, xl if explicit_x else None)
    ey = _edges_from_centres(p.y, logy, yl if explicit_y else None)
    if len(p.x) != res or len(p.y) != res:
        r.bad(["grid-size"], f"{len(p.x)}x{len(p.y)} centres for resolution {res}")
        return
    # requested limits must be spanned exactly
    for nm, e, lim, glo, ghi, v, fin in (("x", ex, xl, given[0], given[1], x, finx), ("y", ey, yl, given[2], given[3], y, finy)):
        if e is None:
            continue
        lgax = logx if nm == "x" else logy
        with np.errstate(all="ignore"):
            tv = np.log10(v[fin]) if lgax else v[fin]            # osyris takes the automatic limit in transformed space
            tl = (np.log10(lim[0]), np.log10(lim[1])) if lgax else lim
        if glo != ghi and np.any(fin) and ((glo and float(np.max(tv)) == tl[0]) or (ghi and float(np.min(tv)) == tl[1])):
            # the automatic side coincides with the requested one: a zero-width request, which osyris widens
            r.label("skipped_degenerate_one_sided_range")
            return
        if not (e[-1] > e[0]):
            # a one-sided request whose automatic side fell on the wrong side of it: nothing is stated for that call
            r.label("skipped_inverted_one_sided_range")
            return
        scale = max(abs(lim[0]), abs(lim[1]), abs(e[-1] - e[0]))
        if (glo and abs(e[0] - lim[0]) > 1e-9 * scale) or (ghi and abs(e[-1] - lim[1]) > 1e-9 * scale):
            r.bad(["grid-does-not-span-limits", nm], f"edges {e[0]!r}..{e[-1]!r} for requested "
                  f"{lim[0] if glo else 'auto'}..{lim[1] if ghi else 'auto'}")
            return
    got_layers = p.layers
    nl = max(len(values), 1)
    if len(got_layers) != nl:
        r.bad(["layer-count"], f"{len(got_layers)} layers, expected {nl}")
        return
    if ex is None or ey is None:
        # single bin with automatic limits: every finite point must be counted
        inside = finx & finy
        for e, v, lg, fin in ((ex, x, logx, finx), (ey, y, logy, finy)):
            if e is None and np.any(fin):
                with np.errstate(all="ignore"):
                    vv = np.log10(v[fin]) if lg else v[fin]
                ext = float(np.max(vv) - np.min(vv))
                if 0 < ext < 256 * np.spacing(float(np.max(np.abs(vv)))):
                    # points a few ulp apart: the 5% padding of the automatic range is below the float resolution
                    r.label("skipped_grid_below_float_resolution")
                    return
        edge_pts = np.zeros(n, dtype=bool)
        for e, v, lg in ((ex, x, logx), (ey, y, logy)):
            if e is not None:
                t = _frac_coord(v, e, lg)
                with np.errstate(all="ignore"):
                    edge_pts |= inside & ((np.abs(t) < 1e-9) | (np.abs(t - 1) < 1e-9))
                    inside &= (t >= 0) & (t < 1)
        lo_n = int(np.sum(inside & ~edge_pts))
        hi_n = int(np.sum(inside | edge_pts))
        d0 = got_layers[0]["data"]
        if not values:
            tot = float(np.ma.filled(d0, 0).sum())
            if not (lo_n <= tot <= hi_n):
                r.bad(["auto-single-bin-count"], f"count {tot}, expected {lo_n}..{hi_n} finite in-range points")
        elif lo_n == hi_n:
            # no point on an edge: the single bin holds exactly the points `inside`
            r.label("single_bin_layers_judged")
            for k, (lay, v, op) in enumerate(zip(got_layers, values, eff_ops)):
                data = lay["data"]
                masked = bool(np.ma.getmaskarray(data).reshape(-1)[0])
                if masked != (lo_n == 0):
                    r.bad(["mask", "single-bin"], f"layer {k}: masked={masked} with {lo_n} points in the bin")
                    return
                if lo_n:
                    want = float(v[inside].sum()) / (lo_n if op == "mean" else 1)
                    got = float(np.ma.getdata(data).reshape(-1)[0])
                    if abs(got - want) > 1e-12 * abs(want):
                        r.bad(["layer-values", "single-bin", "op=" + str(op)], f"layer {k}: {got!r} expected {want!r} ({lo_n} points)")
                        return
        return
    # a grid whose bins are narrower than the float resolution of the coordinates (automatic limits around
    # points that differ by a few ulp) cannot be judged
    for e, lg in ((ex, logx), (ey, logy)):
        ee = np.log10(e) if lg else e
        w = abs(ee[-1] - ee[0]) / res
        if not np.isfinite(w) or w < 256 * np.spacing(max(abs(ee[0]), abs(ee[-1]))):
            r.label("skipped_grid_below_float_resolution")
            return
    tx = _frac_coord(x, ex, logx)
    ty = _frac_coord(y, ey, logy)
    # automatic limits must contain every finite point
    for nm, t, glo, ghi, fin in (("x", tx, given[0], given[1], finx & finy), ("y", ty, given[2], given[3], finx & finy)):
        if np.any(fin):
            # an automatic limit is padded by 5% of the range: every finite point lies strictly inside it
            if (not glo and np.nanmin(t[fin]) <= 0) or (not ghi and np.nanmax(t[fin]) >= res):
                r.bad(["auto-limits-exclude-points", nm], f"fractional coordinates {np.nanmin(t[fin])!r}..{np.nanmax(t[fin])!r} "
                      f"outside [0,{res}]")
                return
    # with automatic limits on one axis, points non-finite on the other axis still shape the range: fine
    tx = np.where(finx, tx, np.nan)
    ty = np.where(finy, ty, np.nan)
    vals = values if values else [np.ones(n)]
    with np.errstate(all="ignore"):
        ec, el, ntol, es = _expected(tx, ty, res, vals, _frac_eps(x, ex, logx), _frac_eps(y, ey, logy))
    counts_layer = None
    if not values:
        counts_layer = got_layers[0]["data"]
    ops = eff_ops if values else ["sum"]
    _judge(case, r, None, counts_layer, ec, el, ntol, es, ops, [g["data"] for g in got_layers], tx, ty, res)


def _judge(case, r, counts, counts_layer, ec, el, ntol, es, ops, got_data, tx, ty, res, kernel=False, resy=None):
    resy = res if resy is None else resy
    touched = el > 0
    # non-triviality
    with np.errstate(all="ignore"):
        near_out = np.isfinite(tx) & np.isfinite(ty) & (((tx > -1) & (tx < 0)) | ((tx > res) & (tx < res + 1)) |
                                                        ((ty > -1) & (ty < 0)) | ((ty > resy) & (ty < resy + 1)))
    r.nontrivial(bool(ec.max(initial=0) >= 2 and near_out.any()))
    if near_out.any():
        r.label("near_outside_points")
    if ntol:
        r.label("tolerant_points")
    if counts is not None:
        got_c = np.asarray(counts)
    elif counts_layer is not None:
        got_c = np.ma.filled(counts_layer, 0).astype(np.int64)
    else:
        got_c = None
    if got_c is not None:
        if got_c.shape != ec.shape:
            r.bad(["shape"], f"{got_c.shape} vs {ec.shape}")
            return
        low = got_c < ec
        high = got_c > ec + el
        if np.any(low | high):
            j, i = np.argwhere(low | high)[0]
            below = bool(np.any((tx > i - 1) & (tx < i) & (np.floor(ty) == j))) if i == 0 else False
            kind = "count-too-high" if high[j, i] else "count-too-low"
            where = "first-bin" if (i == 0 or j == 0) else "inner"
            r.bad([kind, where, "kernel" if kernel else "public"], f"bin (iy={j}, ix={i}): got {got_c[j, i]} expected "
                  f"{ec[j, i]}..{ec[j, i] + el[j, i]}; total got {got_c.sum()} expected {ec.sum()}..{ec.sum() + ntol}; "
                  f"res={res} n={case['n']} limits={case['limits']}")
            return
        tot = int(got_c.sum())
        if tot < ec.sum() or tot > ec.sum() + ntol:
            r.bad(["total-not-conserved"], f"{tot} counted, {ec.sum()} in range (+{ntol} on edges)")
            return
    if kernel:
        out = np.asarray(got_data)
        for k in range(out.shape[0]):
            bad = ~touched & (out[k] != es[k])
            if np.any(bad):
                j, i = np.argwhere(bad)[0]
                r.bad(["sum-wrong", "kernel"], f"layer {k} bin ({j},{i}): {out[k][j, i]} expected {es[k][j, i]}")
                return
        return
    for k, (data, op) in enumerate(zip(got_data, ops)):
        mask = np.ma.getmaskarray(data)
        vals = np.ma.getdata(data)
        if mask.shape != ec.shape:
            r.bad(["shape"], f"layer {k}: {mask.shape}")
            return
        empty = (ec == 0)
        wrong_mask = ~touched & (mask != empty)
        if np.any(wrong_mask):
            j, i = np.argwhere(wrong_mask)[0]
            r.bad(["mask", "masked-nonempty" if mask[j, i] else "unmasked-empty"], f"layer {k} bin ({j},{i}): masked={mask[j, i]} "
                  f"count={ec[j, i]}")
            return
        if got_c is not None and counts_layer is not None:
            continue
        sel = ~touched & ~empty
        want = es[k].copy()
        if op == "mean":
            with np.errstate(all="ignore"):
                want = want / ec
        with np.errstate(all="ignore"):
            ok = np.where(sel, np.abs(vals - want) <= 1e-12 * np.abs(want), True)
        if not np.all(ok):
            j, i = np.argwhere(~ok)[0]
            r.bad(["layer-values", "op=" + str(op)], f"layer {k} op={op} bin ({j},{i}): {vals[j, i]!r} expected {want[j, i]!r} "
                  f"(count {ec[j, i]})")
            return


# ------------------------------------------------------------------ schedules
sched_st = st.fixed_dictionaries({
    "n": st.sampled_from([200000, 400000]),
    "res": st.sampled_from([1, 2, 8, 64]),
    "seed": st.integers(0, 2 ** 31 - 2),
    "conc": st.sampled_from(["one_bin", "few_bins", "uniform"]),
    "api": st.sampled_from(["kernel", "public"]),
})


def schedule(case, r):
    from osyris.plot.utils import hist2d

    rng = np.random.RandomState(case["seed"])
    n, res = case["n"], case["res"]
    if case["conc"] == "one_bin":
        x = rng.uniform(0.30, 0.31, n) if res > 1 else rng.uniform(0.1, 0.9, n)
        y = rng.uniform(0.60, 0.61, n) if res > 1 else rng.uniform(0.1, 0.9, n)
    elif case["conc"] == "few_bins":
        x = rng.choice([0.11, 0.12, 0.83], size=n) + rng.uniform(0, 0.001, n)
        y = rng.choice([0.21, 0.77], size=n) + rng.uniform(0, 0.001, n)
    else:
        x = rng.uniform(-0.05, 1.05, n)
        y = rng.uniform(-0.05, 1.05, n)
    v = rng.randint(-9, 10, size=(2, n)).astype(np.float64)
    tx, ty = x * res, y * res
    ec, el, ntol, es = _expected(tx, ty, res, list(v))
    r.label("conc_" + case["conc"], "api_" + case["api"])
    r.nontrivial(bool(ec.max() >= 1000))
    threads = [1, 2, 3, 4, 8, 16]
    maxt = numba.config.NUMBA_NUM_THREADS
    results = []
    perm = rng.permutation(n)
    old = numba.get_num_threads()
    try:
        for t in threads:
            if t > maxt:
                continue
            numba.set_num_threads(t)
            for rep in range(2):
                idx = perm if rep == 1 else np.arange(n)
                if case["api"] == "kernel":
                    out, counts = hist2d(x=np.ascontiguousarray(x[idx]), y=np.ascontiguousarray(y[idx]),
                                         values=np.ascontiguousarray(v[:, idx]), xmin=0.0, xmax=1.0, nx=res, ymin=0.0,
                                         ymax=1.0, ny=res)
                    res_c, res_s = np.asarray(counts), np.asarray(out)
                else:
                    X = osyris.Array(values=x[idx], unit="cm")
                    Y = osyris.Array(values=y[idx], unit="cm")
                    p = osyris.histogram2d(X, Y, osyris.Array(values=v[0][idx], unit="K"),
                                           Layer(osyris.Array(values=v[1][idx], unit="K")),
                                           plot=False, resolution=res, xmin=0.0, xmax=1.0, ymin=0.0, ymax=1.0)
                    res_s = np.array([np.ma.filled(l["data"], 0.0) for l in p.layers])
                    res_c = None
                results.append((t, rep, res_c, res_s))
    except Exception as e:
        r.bad(["schedule", "raises", type(e).__name__, case["api"]], f"{e!r} (n={n}, res={res}, {case['conc']})")
        return
    finally:
        numba.set_num_threads(old)
    touched = el > 0
    for t, rep, c, s in results:
        if c is not None and np.any(~touched & (c != ec)):
            j, i = np.argwhere(~touched & (c != ec))[0]
            r.bad(["schedule", "counts-lost", "threads>1" if t > 1 else "threads=1"],
                  f"{t} threads rep {rep}: bin ({j},{i}) counted {c[j, i]} of {ec[j, i]} points (n={n}, res={res}, {case['conc']})")
            return
        for k in range(2):
            if np.any(~touched & (s[k] != es[k])):
                j, i = np.argwhere(~touched & (s[k] != es[k]))[0]
                r.bad(["schedule", "sum-lost", "threads>1" if t > 1 else "threads=1"],
                      f"{t} threads rep {rep}: layer {k} bin ({j},{i}) sum {s[k][j, i]} expected {es[k][j, i]} (n={n}, res={res})")
                return


def subs(ctx):
    return [
        Sub("binning", binning, strategy=case_st, quick=1200, thorough=4000,
            required={"near_outside_points": 0.2, "api_kernel": 0.2, "limits_auto": 0.1}),
        Sub("schedule", schedule, strategy=sched_st, quick=10, thorough=150, shard=False, shrink=False),
    ]
