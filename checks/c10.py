"""C10 - numpy functions on Arrays return dimensionally correct units or refuse (DESIGN.md C10)."""
import warnings

import numpy as np
from hypothesis import strategies as st

from vlib import env
from vlib import strategies as vs
from vlib import unitmodel as um
from vlib.harness import Sub

PROPERTY = "C10"
RULE = ("storage cases: element-wise functions of an Array holding a numpy masked array (the mask survives, a statistic taken "
        "afterwards ignores masked entries) and reductions / constructors with dtype= or an integer out= (the unit survives "
        "a result type asked for by keyword).  fixed catalogue of ~100 numpy ufuncs / array functions in three unit classes (unchanged / transformed / "
        "dimensionless, incl. logical_*, any, all) plus a values-only class; call forms: positional, axis= (int/None/tuple), "
        "keepdims=, out= for ufuncs and for array functions (sum, std, cumsum, clip ...), the condition of where / compress as "
        "ndarray or Array, a bare operand first (np.divide(2.0, A)), sequences of two or three, clip with one or both bounds; "
        "unit assignments for n-ary functions: same / compatible-different / incompatible / bare ndarray or "
        "number mixed in; dtypes float64/32 int64/32 complex128 uint8 float16 bool; NaN/inf values; shapes 1-d and 2-d; "
        "ufunc methods reduce / accumulate / outer of add, maximum, minimum, multiply, divide (refused, or dimensionally "
        "correct: multiply.reduce of n values has unit u^n, multiply.accumulate has no single unit).  Oracle: values = numpy on the raw values "
        "(n-ary functions: compared as physical quantities in cgs from the independent unit model, all of them are "
        "positively homogeneous), unit by class; compatible-different operands: physically correct or raises; "
        "incompatible: must raise; result dtype = numpy's.  The (function x assignment x dtype) table is enumerated "
        "exhaustively on fixed operands and values/shapes/units are generated.  non-trivial = mixed-unit assignment, or "
        "a keyword form, or a non-float64 dtype.")
ASSUMPTIONS = [
    "a bare number/ndarray mixed with a dimensional Array may be treated as being in that unit or be rejected, except "
    "for multiply / divide / power, where a bare operand carries no unit and the call must succeed",
    "a boolean Array carries no unit (generated dimensionless)",
    "functions whose unit the statement does not fix (argsort/argmax/argmin/log/exp/sin) are judged on values only; "
    "var, prod, dot, cross and tuple-returning functions are outside the catalogue",
    "tolerances: exact for unary functions; n-ary 1e-9 (1e-5 with float32) on cgs values",
]
osyris = None


def prepare(ctx):
    global osyris
    osyris = env.import_osyris()


# name -> (class, form)
UNCH, TRANS, DIMLESS, VALS = "unchanged", "transformed", "dimensionless", "values-only"
CAT = {}
for _n in ["sum", "nansum", "mean", "nanmean", "average", "min", "amin", "max", "amax", "nanmin", "nanmax", "ptp",
           "median", "nanmedian", "std", "nanstd"]:
    CAT[_n] = (UNCH, "reduce")
for _n in ["cumsum", "sort", "flip"]:
    CAT[_n] = (UNCH, "axisop")
for _n in ["diff", "abs", "absolute", "fabs", "negative", "positive", "round", "floor", "ceil", "trunc", "ravel",
           "squeeze", "transpose", "copy", "rint"]:
    CAT[_n] = (UNCH, "unary")
for _n in ["percentile", "quantile"]:
    CAT[_n] = (UNCH, "q")
for _n in ["roll", "repeat"]:
    CAT[_n] = (UNCH, "int2")
CAT["take"] = (UNCH, "take")
CAT["compress"] = (UNCH, "compress")
CAT["clip"] = (UNCH, "clip")
CAT["where"] = (UNCH, "where")
for _n in ["maximum", "minimum", "fmax", "fmin", "add", "subtract", "hypot", "append"]:
    CAT[_n] = (UNCH, "binary")
for _n in ["concatenate", "stack", "hstack", "vstack"]:
    CAT[_n] = (UNCH, "seq")
for _n in ["multiply", "divide", "true_divide"]:
    CAT[_n] = (TRANS, "binary")
for _n in ["sqrt", "square", "cbrt", "reciprocal"]:
    CAT[_n] = (TRANS, "unary")
CAT["power"] = (TRANS, "power")
for _n in ["isnan", "isfinite", "isinf", "signbit"]:
    CAT[_n] = (DIMLESS, "unary")
for _n in ["less", "less_equal", "greater", "greater_equal", "equal", "not_equal"]:
    CAT[_n] = (DIMLESS, "binary")
for _n in ["logical_and", "logical_or", "logical_xor"]:
    CAT[_n] = (DIMLESS, "binary")
CAT["logical_not"] = (DIMLESS, "unary")
for _n in ["any", "all"]:
    CAT[_n] = (DIMLESS, "reduce")
for _n in ["argsort", "argmax", "argmin", "log", "log10", "exp", "sin"]:
    CAT[_n] = (VALS, "unary")
LOGICAL = {"logical_and", "logical_or", "logical_xor", "logical_not", "any", "all"}
UFUNCS = {"abs", "absolute", "fabs", "negative", "positive", "floor", "ceil", "trunc", "rint", "maximum", "minimum",
          "fmax", "fmin", "add", "subtract", "hypot", "multiply", "divide", "true_divide", "sqrt", "square", "cbrt",
          "reciprocal", "power", "isnan", "isfinite", "isinf", "signbit", "less", "less_equal", "greater",
          "greater_equal", "equal", "not_equal", "log", "log10", "exp", "sin", "logical_and", "logical_or", "logical_xor",
          "logical_not"}
EXPO = {"sqrt": 0.5, "square": 2, "cbrt": 1.0 / 3.0, "reciprocal": -1}
NAMES = sorted(CAT)


@st.composite
def case_st(draw, name=None):
    name = name or draw(st.sampled_from(NAMES))
    cls, form = CAT[name]
    dt = draw(st.sampled_from(vs.DTYPES + vs.DTYPES + ["complex128", "uint8", "float16", "bool"]))
    two_d = draw(st.booleans())
    shape = [draw(st.integers(1, 4)), draw(st.integers(1, 4))] if two_d else [draw(st.integers(1, 6))]
    ua, ub, rel = draw(vs.unit_pairs())
    positive = name in ("sqrt", "log", "log10", "cbrt", "reciprocal", "power")
    if name in LOGICAL or dt == "bool":
        ua = ub = "dimensionless"       # truth values carry no unit
        rel = "same"
    specials = dt == "float64" and not positive and draw(st.integers(0, 3)) == 0
    a = draw(vs.array_specs(units=[ua], dtypes=[dt if dt not in ("uint8", "float16", "bool") else "int64"], shape=shape,
                            positive=positive or dt == "uint8", specials=specials,
                            allow_zero=name not in ("reciprocal", "divide", "true_divide", "log", "log10")))
    if dt in ("uint8", "float16", "bool"):
        # small non-negative integers are representable in all three
        a["vals"] = [abs(int(v)) % (2 if dt == "bool" else 200) or (1 if name in ("reciprocal", "divide", "true_divide", "log", "log10") else 0)
                     for v in a["vals"]]
        a["dtype"] = dt
    case = {"f": name, "a": a, "kw": {}}
    if specials:
        case["specials"] = True
    if form in ("reduce", "axisop"):
        kwform = draw(st.sampled_from(["none", "none", "axis0", "axisNone", "axis-1", "keepdims", "axistuple"]))
        if kwform == "axis0":
            case["kw"] = {"axis": 0}
        elif kwform == "axis-1":
            case["kw"] = {"axis": -1}
        elif kwform == "axisNone" and form == "reduce":
            case["kw"] = {"axis": None}
        elif kwform == "keepdims" and form == "reduce" and name not in ("average",):
            case["kw"] = {"axis": 0, "keepdims": True}
        elif kwform == "axistuple" and form == "reduce" and two_d and name not in ("average", "median", "nanmedian",
                                                                                  "ptp"):
            case["kw"] = {"axis": [0, 1]}
    elif form == "q":
        case["q"] = draw(st.sampled_from([50, 25, 0.5, 0.1]))
        if name == "quantile" and case["q"] > 1:
            case["q"] = case["q"] / 100.0
        if draw(st.booleans()):
            case["kw"] = {"axis": 0}
    elif form == "int2":
        case["n"] = draw(st.integers(0, 3))
    elif form == "power":
        case["k"] = draw(st.sampled_from([0, 1, 2, 3, 0.5, -1.0, 2.0] if dt.startswith("int") else
                                         [-2, -1, 0, 1, 2, 3, 0.5]))
        case["k_as"] = draw(st.sampled_from(["py", "py", "npf", "nd0"]))
    elif form == "take":
        n = vs.nelem(shape)
        case["idx"] = draw(st.lists(st.integers(0, n - 1), min_size=0, max_size=5))
        case["idx_as"] = draw(st.sampled_from(["nd", "Array"]))
    elif form == "compress":
        case["cond"] = draw(st.lists(st.booleans(), min_size=shape[0], max_size=shape[0]))
        case["kw"] = {"axis": 0} if two_d else {}
        case["cond_as"] = draw(st.sampled_from(["nd", "Array"]))
    if form in ("reduce", "axisop") and name not in ("median", "nanmedian", "ptp", "average", "sort", "flip", "percentile",
                                                       "quantile") and draw(st.integers(0, 5)) == 0:
        case["out"] = True          # out= of an array function (not a ufunc)
    if form in ("binary", "seq", "clip", "where"):
        dtb = draw(st.sampled_from(vs.DTYPES))
        assign = draw(st.sampled_from(["same", "same", "compat", "compat", "incompat", "bare_nd", "bare_num"]))
        if assign == "same":
            ub = ua
        elif assign == "compat" and rel != "compat":
            fam = um.FAMILY_OF[ua]
            others = [u for u in um.FAMILIES[fam] if u != ua]
            ub = draw(st.sampled_from(others)) if others else ua
            if ub == ua:
                assign = "same"
        elif assign == "incompat" and rel != "incompat":
            ub = draw(st.sampled_from([u for u in um.ALL_UNITS if um.FAMILY_OF[u] != um.FAMILY_OF[ua]]))
        case["assign"] = assign
        bshape = shape
        if form == "binary" and name != "append" and draw(st.integers(0, 3)) == 0:
            bshape = [shape[-1]] if two_d else []
        nonzero = name in ("divide", "true_divide")
        if assign == "bare_nd":
            case["b"] = draw(vs.array_specs(kind="nd", dtypes=[dtb], shape=bshape, allow_zero=not nonzero))
        elif assign == "bare_num":
            case["b"] = {"k": "num", "v": draw(vs.magnitudes("float64", 1, allow_zero=False))[0]}
        else:
            case["b"] = draw(vs.array_specs(units=[ub], dtypes=[dtb], shape=bshape, allow_zero=not nonzero,
                                            kind=draw(st.sampled_from(["A", "A", "A", "Q"]))))
        if assign in ("bare_nd", "bare_num") and form in ("binary", "seq", "where") and name != "append":
            case["swap"] = draw(st.booleans())      # the bare operand first: np.divide(2.0, A), np.where(c, 0.0, A)
        if form == "where":
            case["cond_as"] = draw(st.sampled_from(["nd", "Array"]))
            case["cond"] = draw(st.lists(st.booleans(), min_size=vs.nelem(shape), max_size=vs.nelem(shape)))
            if case["b"].get("shape") != shape and case["b"]["k"] != "num":
                case["b"] = draw(vs.array_specs(units=[case["b"].get("unit", "dimensionless")], dtypes=[dtb], shape=shape,
                                                kind="nd" if assign == "bare_nd" else "A"))
        if form == "clip":
            case["order"] = draw(st.sampled_from(["hi_only", "lo_only", "both"]))
            if draw(st.integers(0, 5)) == 0 and assign == "same":
                case["out"] = True
        if form == "seq":
            case["as"] = draw(st.sampled_from(["list", "tuple"]))
            if case["b"]["k"] == "num":
                case["b"] = draw(vs.array_specs(kind="nd", dtypes=[dtb], shape=shape))
                case["assign"] = "bare_nd"
            elif case["b"].get("shape") != shape:
                case["b"]["shape"] = shape
            if case["b"]["k"] == "Q":
                case["b"]["k"] = "A"
            if name == "concatenate" and draw(st.booleans()):
                case["kw"] = {"axis": 0}
            case["three"] = draw(st.booleans())     # [A, A, B]: the odd unit comes last
        if name in UFUNCS and form == "binary" and draw(st.integers(0, 4)) == 0:
            case["out"] = True
    elif name in UFUNCS and form == "unary" and draw(st.integers(0, 4)) == 0:
        case["out"] = True
    return case


def _kw(case):
    kw = dict(case.get("kw", {}))
    if isinstance(kw.get("axis"), list):
        kw["axis"] = tuple(kw["axis"])
    return kw


def _call(func, case, A, B, raw, extra=None):
    """Build the numpy call. raw=True: A, B are plain ndarrays (reference); else osyris objects."""
    name = case["f"]
    cls, form = CAT[name]
    kw = _kw(case)
    if extra:
        kw.update(extra)
    swap = bool(case.get("swap"))
    if form in ("reduce", "axisop", "unary"):
        return func(A, **kw)
    if form == "q":
        return func(A, case["q"], **kw)
    if form == "int2":
        return func(A, case["n"])
    if form == "power":
        k = case["k"]
        if case.get("k_as") == "npf":
            k = np.float64(k)
        elif case.get("k_as") == "nd0":
            k = np.array(k)
        return func(A, k)
    if form == "take":
        idx = np.array(case["idx"], dtype=np.int64)
        if case["idx_as"] == "Array" and not raw:
            idx = osyris.Array(values=idx)
        return func(A, idx)
    if form == "compress":
        cond = np.array(case["cond"], dtype=bool)
        if case.get("cond_as") == "Array" and not raw:
            cond = osyris.Array(values=cond)
        return func(cond, A, **kw)
    if form == "binary":
        return func(B, A) if swap else func(A, B)
    if form == "seq":
        items = [B, A] if swap else [A, B]
        if case.get("three"):
            items = [items[0]] + items          # [A, A, B] / [B, B, A]
        seq = items if case["as"] == "list" else tuple(items)
        return func(seq, **kw)
    if form == "clip":
        if case["order"] == "lo_only":
            return func(A, B, None, **kw)
        if case["order"] == "both":
            return func(A, B, B, **kw)
        return func(A, None, B, **kw)
    if form == "where":
        cond = np.array(case["cond"], dtype=bool).reshape(tuple(case["a"]["shape"]))
        if case.get("cond_as") == "Array" and not raw:
            cond = osyris.Array(values=cond)
        return func(cond, B, A) if swap else func(cond, A, B)
    raise ValueError(form)


def numpy_fn(case, r):
    name = case["f"]
    cls, form = CAT[name]
    func = getattr(np, name)
    a = vs.build(case["a"], osyris)
    av, au = vs.model_of(case["a"])
    araw = vs.np_values(case["a"])
    dta = case["a"]["dtype"]
    has_b = "b" in case
    b = braw = bu = None
    assign = case.get("assign")
    if has_b:
        b = vs.build(case["b"], osyris)
        braw = case["b"]["v"] if case["b"]["k"] == "num" else vs.np_values(case["b"])
        _, bu = vs.model_of(case["b"])
    r.label("class_" + cls, "form_" + form, "dtype_" + dta)
    kwform = bool(case.get("kw")) or case.get("out", False)
    if kwform:
        r.label("keyword_form")
    if assign:
        r.label("assign_" + assign)
    r.nontrivial(assign in ("compat", "incompat", "bare_nd", "bare_num") or kwform or dta != "float64")
    if form == "power" and case.get("k_as") == "nd0" and um.is_dimensionless(au) and abs(au[0] - 1) > 0:
        r.label("skipped_scaled_dimensionless_ndexp")
        return
    snap_a = (a._array.tobytes(), str(a.unit))
    snap_b = (b._array.tobytes(), str(b.unit)) if isinstance(b, osyris.Array) else None

    # ---- reference on raw values (also tells us whether numpy itself accepts the call)
    with warnings.catch_warnings(), np.errstate(all="ignore"):
        warnings.simplefilter("ignore")
        try:
            ref = _call(func, case, araw, braw, raw=True)
        except Exception:
            r.label("numpy_rejects")
            return       # numpy itself refuses this call on plain arrays: outside the property
        out_obj = None
        try:
            if case.get("out"):
                ref_dt = np.asarray(ref).dtype
                out_obj = osyris.Array(values=np.zeros(np.shape(ref), dtype=ref_dt), unit="s")
                if form == "unary":
                    got = func(a, out=out_obj)
                elif form == "binary":
                    got = func(b, a, out=out_obj) if case.get("swap") else func(a, b, out=out_obj)
                else:
                    got = _call(func, case, a, b, raw=False, extra={"out": out_obj})
                    r.label("out_array_function")
            else:
                got = _call(func, case, a, b, raw=False)
            raised = None
        except Exception as e:
            got, raised = None, e
    if (a._array.tobytes(), str(a.unit)) != snap_a or (snap_b and (b._array.tobytes(), str(b.unit)) != snap_b):
        r.bad([name, "operand-modified"], f"np.{name} changed an input operand")

    mixed = assign in ("compat", "incompat") and cls != TRANS
    if assign == "compat" and abs(au[0] / bu[0] - 1) < 1e-12:
        mixed = False
    for lab in ("swap", "three"):
        if case.get(lab):
            r.label("form_" + lab)
    if case.get("cond_as") == "Array":
        r.label("condition_is_Array")
    if case.get("specials"):
        r.label("non_finite_values")
    if raised is not None:
        # refusing mixed units is allowed; so is refusing a bare number next to a dimensional Array where the unit of the
        # result would have to be that of the Array (a bare operand of multiply / divide carries no unit: must work)
        if mixed or (assign in ("bare_nd", "bare_num") and cls != TRANS and not um.is_dimensionless(au)):
            r.label("refused")
            return
        kind = "keyword-form" if kwform else "raises"
        r.bad([name, kind, type(raised).__name__], f"np.{name}({_describe(case)}) raised {raised!r}")
        return
    if case.get("out") and got is not out_obj:
        r.bad([name, "out-identity"], "out= did not return the out object")
        return
    if not isinstance(got, osyris.Array):
        r.bad([name, "result-type"], f"np.{name}({_describe(case)}) returned {type(got).__name__}")
        return
    ref = np.asarray(ref)
    gv = np.asarray(got.values)
    if gv.shape != ref.shape:
        r.bad([name, "shape"], f"{gv.shape} vs numpy {ref.shape}; {_describe(case)}")
        return
    try:
        gu = um.from_pint(got.unit)
    except um.UnknownUnit as e:
        raise RuntimeError(f"unit model does not know {e}")

    # ---- expected unit by class
    if cls == UNCH:
        wu = au
    elif cls == DIMLESS:
        wu = um.ONE
    elif cls == TRANS:
        if name == "multiply":
            wu = um.umul(au, bu)
        elif name in ("divide", "true_divide"):
            wu = um.udiv(bu, au) if case.get("swap") else um.udiv(au, bu)
        elif name == "power":
            wu = um.upow(au, case["k"])
        else:
            wu = um.upow(au, EXPO[name])
    else:
        wu = None
    lowp = "float32" in (dta, case.get("b", {}).get("dtype"))

    def mixed_sig(kind):
        # the recorded finding is precisely: numpy on the raw numbers, labelled with the unit of one operand; any other
        # wrong outcome of a mixed-unit call gets its own signature and is reported
        raw_like = gv.shape == ref.shape and (np.array_equal(gv, ref, equal_nan=True) if gv.dtype.kind in "fc" else
                                              np.array_equal(gv, ref))
        one_unit = cls == DIMLESS or any(um.same_dims(gu, u) and abs(gu[0] / u[0] - 1) < 1e-12 for u in (au, bu))
        return ["mixed-units-combined" if (raw_like and one_unit) else "mixed-units-wrong-result", kind, name]

    if mixed and assign == "incompat":
        r.bad(mixed_sig("incompatible"),
              f"np.{name}([{case['a']['unit']}], [{case['b'].get('unit')}]) did not raise, returned [{got.unit}]")
        return

    if wu is not None and not um.same_dims(gu, wu):
        r.bad([name, "unit"], f"np.{name}({_describe(case)}) has unit [{got.unit}], class {cls} expects dims {[str(x) for x in wu[1]]}")
        return
    if cls == DIMLESS and got.unit != osyris.units("dimensionless"):
        r.bad([name, "unit"], f"predicate result has unit [{got.unit}]")
        return

    # ---- values
    with np.errstate(all="ignore"), warnings.catch_warnings():
        warnings.simplefilter("ignore")
        if not has_b or assign in ("same", "bare_nd", "bare_num") or cls == VALS:
            # raw semantics: result values are numpy's on the raw values (bare operands counted as being in a's unit)
            if cls == TRANS and has_b and assign in ("same",):
                pass
            same = np.array_equal(gv, ref, equal_nan=True) if gv.dtype.kind in "fc" else np.array_equal(gv, ref)
            if not same:
                # transformed results may be expressed in another but equivalent unit (m*cm vs m**2)
                if cls == TRANS and wu is not None:
                    want = _trans_cgs(name, case, av, au, braw, bu)
                    gotc = um.to_cgs(gv, gu)
                    rtol = 1e-5 if lowp else 1e-9
                    ok = (np.abs(gotc - want) <= rtol * np.abs(want)) | (gotc == want) | (np.isnan(gotc) & np.isnan(want))
                    if np.all(ok):
                        same = True
                if not same and gv.dtype.kind == "f":
                    ok = np.isclose(gv, ref, rtol=1e-6 if lowp else 1e-13, atol=0, equal_nan=True) | (gv == ref)
                    same = bool(np.all(ok))
            if not same:
                r.bad([name, "values"], f"np.{name}({_describe(case)}) = {gv.tolist()} but numpy on raw values gives {ref.tolist()}")
                return
            if cls in (UNCH,) and abs(gu[0] / au[0] - 1) > 1e-12:
                r.bad([name, "unit"], f"np.{name}({_describe(case)}) labelled [{got.unit}] but values are in [{case['a']['unit']}]")
                return
        else:
            # compatible-different units: compare as physical quantities (all n-ary functions here are homogeneous)
            ac = um.to_cgs(araw, au)
            bc = um.to_cgs(braw, bu)
            if cls == TRANS:
                want = _trans_cgs(name, case, av, au, braw, bu)
                gotc = um.to_cgs(gv, gu)
            elif cls == DIMLESS:
                want = np.asarray(_call(func, case, ac, bc, raw=True))
                gotc = gv
                dec = np.abs(np.broadcast_to(ac, want.shape) - np.broadcast_to(bc, want.shape)) > 1e-6 * (
                    np.abs(np.broadcast_to(ac, want.shape)) + np.abs(np.broadcast_to(bc, want.shape)))
                if np.any(dec & (gotc != want)):
                    r.bad(mixed_sig("compatible"),
                          f"np.{name}([{case['a']['unit']}], [{case['b'].get('unit')}]) compared raw numbers: got "
                          f"{gotc.tolist()} physical verdict {want.tolist()}")
                return
            else:
                want = np.asarray(_call(func, case, ac, bc, raw=True), dtype=np.float64)
                gotc = um.to_cgs(gv, gu)
            rtol = 1e-5 if lowp else 1e-9
            fin_ac = np.abs(ac[np.isfinite(ac)]) if ac.size else np.zeros(0)       # (NaN / inf operands must not poison the scale)
            scale = np.maximum(np.where(np.isfinite(want), np.abs(want), 0.0), fin_ac.max() if fin_ac.size else 0.0)
            ok = (np.abs(gotc - want) <= rtol * scale) | (gotc == want) | (np.isnan(gotc) & np.isnan(want))
            ok |= np.abs(gotc - want) <= rtol * np.abs(want)
            if not np.all(ok):
                if cls == TRANS:
                    r.bad([name, "values"], f"np.{name}({_describe(case)}): got {gotc.tolist()} cgs, want {want.tolist()}")
                else:
                    r.bad(mixed_sig("compatible"),
                          f"np.{name}([{case['a']['unit']}], [{case['b'].get('unit')}]) combined raw numbers and labelled "
                          f"the result [{got.unit}]: {gv.tolist()} (physical result in cgs {want.tolist()})")
                return
    # ---- dtype
    if gv.dtype != ref.dtype and not (cls == TRANS and has_b and assign == "compat"):
        if not (has_b and assign == "compat"):
            r.bad([name, "dtype"], f"np.{name}({_describe(case)}) dtype {gv.dtype}, numpy gives {ref.dtype}")


def _trans_cgs(name, case, av, au, braw, bu):
    a = um.to_cgs(av, au)
    if name == "multiply":
        return a * um.to_cgs(braw, bu)
    if name in ("divide", "true_divide"):
        return a / um.to_cgs(braw, bu)
    if name == "power":
        return np.power(np.asarray(av, dtype=np.float64), float(case["k"])) * au[0] ** float(case["k"])
    if name == "sqrt":
        return np.sqrt(a)
    if name == "square":
        return a * a
    if name == "cbrt":
        return np.cbrt(a)
    if name == "reciprocal":
        return 1.0 / a
    raise ValueError(name)


def _describe(case):
    s = f"{case['a']['dtype']}{case['a']['shape']}[{case['a']['unit']}]"
    if "b" in case:
        b = case["b"]
        s += ", " + (repr(b["v"]) if b["k"] == "num" else f"{b['k']}:{b['dtype']}{b['shape']}[{b.get('unit', '-')}]")
    for k in ("q", "n", "k", "k_as"):
        if k in case:
            s += f", {k}={case[k]}"
    if case.get("kw"):
        s += f", **{case['kw']}"
    if case.get("out"):
        s += ", out=Array"
    return s


def _table_cases():
    out = []
    for name in NAMES:
        cls, form = CAT[name]
        for dt in vs.DTYPES:
            vals = [4, 1, 9, 2, 16, 3]
            a = {"k": "A", "dtype": dt, "shape": [2, 3], "vals": vals, "unit": "m"}
            base = {"f": name, "a": a, "kw": {}}
            if form == "q":
                base["q"] = 50 if name == "percentile" else 0.5
            if form == "int2":
                base["n"] = 2
            if form == "power":
                base["k"] = 2
                for kas in ("npf", "nd0"):
                    out.append(dict(base, k_as=kas))
                    out.append(dict(base, k=0.5, k_as=kas))
            if form == "take":
                base.update(idx=[0, 5, 5], idx_as="nd")
            if form == "compress":
                base.update(cond=[True, False], kw={"axis": 0})
            if form in ("binary", "seq", "clip", "where"):
                for assign, ub in [("same", "m"), ("compat", "cm"), ("incompat", "s"), ("bare_nd", None)]:
                    c = dict(base, assign=assign)
                    if ub is None:
                        c["b"] = {"k": "nd", "dtype": dt, "shape": [2, 3], "vals": [1, 2, 3, 4, 5, 6]}
                    else:
                        c["b"] = {"k": "A", "dtype": dt, "shape": [2, 3], "vals": [1, 2, 3, 4, 5, 6], "unit": ub}
                    if form == "where":
                        c["cond"] = [True, False, True, False, True, False]
                    if form == "clip":
                        c["order"] = "hi_only"
                    if form == "seq":
                        c["as"] = "list"
                    out.append(c)
                    if name in UFUNCS and form == "binary" and assign == "same":
                        out.append(dict(c, out=True))
            else:
                out.append(base)
                if form in ("reduce", "axisop"):
                    out.append(dict(base, kw={"axis": 0}))
                    out.append(dict(base, kw={"axis": 1}))
                    if form == "reduce":
                        out.append(dict(base, kw={"axis": None}))
                        if name != "average":
                            out.append(dict(base, kw={"axis": 1, "keepdims": True}))
                if name in UFUNCS and form == "unary":
                    out.append(dict(base, out=True))
    return out


# ------------------------------------------------------------------ ufunc methods (reduce / accumulate / outer)
UM_ADD = ["add", "maximum", "minimum"]


@st.composite
def umethod_st(draw):
    u = draw(st.sampled_from(["add", "maximum", "minimum", "multiply", "multiply", "divide"]))
    m = draw(st.sampled_from(["outer"] if u == "divide" else ["reduce", "accumulate", "outer"]))
    n = draw(st.integers(1, 5))
    ua, ub, rel = draw(vs.unit_pairs())
    if u in UM_ADD:
        ub = ua                 # mixed units of the additive functions are the recorded finding: not repeated here
    a = draw(vs.array_specs(units=[ua], dtypes=["float64"], shape=[n], allow_zero=False, positive=True))
    b = draw(vs.array_specs(units=[ub], dtypes=["float64"], shape=[draw(st.integers(1, 4))], allow_zero=False, positive=True))
    return {"u": u, "m": m, "a": a, "b": b}


def ufunc_method(case, r):
    """np.<ufunc>.<method> on Arrays: refused (an exception), or values of numpy on the raw values with the unit
    dimensional analysis gives."""
    uf = getattr(np, case["u"])
    meth = getattr(uf, case["m"])
    a = vs.build(case["a"], osyris)
    b = vs.build(case["b"], osyris)
    av, au = vs.model_of(case["a"])
    bv, bu = vs.model_of(case["b"])
    n = len(av)
    r.label("method_" + case["m"], "ufunc_" + case["u"])
    r.nontrivial(not um.is_dimensionless(au))
    args_raw = (av, bv) if case["m"] == "outer" else (av,)
    args = (a, b) if case["m"] == "outer" else (a,)
    with warnings.catch_warnings(), np.errstate(all="ignore"):
        warnings.simplefilter("ignore")
        ref = np.asarray(meth(*args_raw))
        try:
            got = meth(*args)
        except Exception:
            r.label("refused")
            return
    if not isinstance(got, osyris.Array):
        r.bad(["ufunc-method", case["u"], case["m"], "result-type"], type(got).__name__)
        return
    gv = np.asarray(got.values)
    if gv.shape != ref.shape or not np.allclose(gv, ref, rtol=1e-12, atol=0, equal_nan=True):
        r.bad(["ufunc-method", case["u"], case["m"], "values"], f"{gv.tolist()} vs numpy {ref.tolist()}")
        return
    try:
        gu = um.from_pint(got.unit)
    except um.UnknownUnit as e:
        raise RuntimeError(f"unit model does not know {e}")
    if case["u"] in UM_ADD:
        wu = au
    elif case["u"] == "multiply":
        if case["m"] == "outer":
            wu = um.umul(au, bu)
        elif case["m"] == "reduce":
            wu = um.upow(au, n)
        else:
            # the k-th partial product has unit u**k: no single unit fits unless u is a pure number (or n == 1)
            if n > 1 and not (um.is_dimensionless(au) and abs(au[0] - 1) < 1e-12):
                r.bad(["ufunc-method", "multiply", "accumulate", "unit-ill-defined-not-refused"],
                      f"np.multiply.accumulate of {n} values in [{case['a']['unit']}] returned [{got.unit}]")
                return
            wu = au
    else:
        wu = um.udiv(au, bu)
    if not um.same_dims(gu, wu) or abs(gu[0] / wu[0] - 1) > 1e-9:
        r.bad(["ufunc-method", case["u"], case["m"], "unit"],
              f"np.{case['u']}.{case['m']} of [{case['a']['unit']}]" + (f", [{case['b']['unit']}]" if case["m"] == "outer" else "") +
              f" (n={n}) has unit [{got.unit}]; dimensional analysis gives factor {wu[0]!r} dims {[str(x) for x in wu[1]]}")


# ------------------------------------------------------------------ masked values; a result type asked for by keyword
@st.composite
def storage_case_st(draw):
    n = draw(st.integers(2, 7))
    kind = draw(st.sampled_from(["masked", "dtype_kw", "chain"]))
    num = st.floats(-1e3, 1e3, allow_nan=False).filter(lambda x: abs(x) > 1e-2)
    return {"kind": kind, "unit": draw(st.sampled_from(["m", "cm", "g/cm**3", "dimensionless", "km/s"])),
            "vals": draw(st.lists(num, min_size=n, max_size=n)), "mask": draw(st.lists(st.booleans(), min_size=n, max_size=n)),
            "func": draw(st.sampled_from(["abs", "negative", "square", "add_self", "mul_number", "sum_abs"] if kind == "masked" else
                                         ["sum", "cumsum", "mean", "zeros_like", "full_like", "cumsum_out"] if kind == "dtype_kw" else
                                         # a function and its inverse: the unit comes back exactly, not up to rounded exponents
                                         ["cbrt_cube", "sqrt_square", "square_sqrt", "reciprocal_twice", "cbrt_mul3"])),
            "dtype": draw(st.sampled_from(["int64", "int32", "float32", "int64"]))}


def storage(case, r):
    kind, fn = case["kind"], case["func"]
    r.label("storage_" + kind, "func_" + fn)
    r.nontrivial(kind == "dtype_kw" or any(case["mask"]))
    raw = np.array(case["vals"], dtype=np.float64)
    u = osyris.units(case["unit"])
    with warnings.catch_warnings(), np.errstate(all="ignore"):
        warnings.simplefilter("ignore")
        try:
            if kind == "chain":
                a = osyris.Array(values=np.abs(raw), unit=case["unit"])
                call = {"cbrt_cube": lambda x: np.power(np.cbrt(x), 3), "sqrt_square": lambda x: np.square(np.sqrt(x)),
                        "square_sqrt": lambda x: np.sqrt(np.square(x)), "reciprocal_twice": lambda x: np.reciprocal(np.reciprocal(x)),
                        "cbrt_mul3": lambda x: np.cbrt(x) * np.cbrt(x) * np.cbrt(x)}[fn]
                got, want = call(a), np.abs(raw)
                want_unit = u
                if isinstance(got, osyris.Array) and got.unit != u:
                    r.bad(["storage", "unit-does-not-come-back", fn], f"{fn} of [{case['unit']}] values is labelled [{got.unit}] "
                          f"({got.unit!r}), which is not equal to [{u}]")
                    return
                if isinstance(got, osyris.Array) and not np.allclose(np.asarray(got.values), want, rtol=1e-12, atol=0):
                    r.bad(["storage", "values", kind, fn], f"got {np.asarray(got.values).tolist()} want {want.tolist()}")
                return
            if kind == "masked":
                mv = np.ma.masked_array(raw.copy(), mask=np.array(case["mask"]))
                a = osyris.Array(values=mv.copy(), unit=case["unit"])
                call = {"abs": lambda x: np.abs(x), "negative": lambda x: np.negative(x), "square": lambda x: np.square(x),
                        "add_self": lambda x: np.add(x, x), "mul_number": lambda x: np.multiply(x, 3.0),
                        "sum_abs": lambda x: np.sum(np.abs(x))}[fn]
                got, want = call(a), call(mv)
                want_unit = u ** 2 if fn == "square" else u
            else:
                a = osyris.Array(values=raw.copy(), unit=case["unit"])
                dt = np.dtype(case["dtype"])
                if fn == "cumsum_out":
                    out = osyris.Array(values=np.zeros(len(raw), dtype=dt), unit=case["unit"])
                    got = np.cumsum(a, out=out)
                    want = np.cumsum(raw, out=np.zeros(len(raw), dtype=dt))
                else:
                    call = {"sum": lambda x: np.sum(x, dtype=dt), "cumsum": lambda x: np.cumsum(x, dtype=dt),
                            "mean": lambda x: np.mean(x, dtype=np.float32 if dt.kind != "f" else dt),
                            "zeros_like": lambda x: np.zeros_like(x, dtype=dt), "full_like": lambda x: np.full_like(x, 7, dtype=dt)}[fn]
                    got, want = call(a), call(raw)
                want_unit = u
        except Exception as e:
            r.bad(["storage", "raises", kind, fn, type(e).__name__], f"{e!r}; case {case}")
            return
    if not isinstance(got, osyris.Array):
        r.bad(["storage", "result-type", kind, fn], type(got).__name__)
        return
    if got.unit != want_unit:
        r.bad(["storage", "unit", kind, fn], f"np.{fn} of [{case['unit']}] values ({kind}, dtype {case['dtype']}) came back in "
              f"[{got.unit}], expected [{want_unit}]")
        return
    gv = got.values
    if kind == "masked" and fn != "sum_abs":
        if not isinstance(gv, np.ma.MaskedArray) or not np.array_equal(np.ma.getmaskarray(gv), np.ma.getmaskarray(want)):
            r.bad(["storage", "mask-lost", fn], f"mask {case['mask']} -> "
                  f"{np.ma.getmaskarray(gv).tolist() if isinstance(gv, np.ma.MaskedArray) else 'plain ndarray'}")
            return
        keep = ~np.ma.getmaskarray(want)
        ok = np.allclose(np.ma.getdata(gv)[keep], np.ma.getdata(want)[keep], rtol=1e-12, atol=0)
    else:
        if np.asarray(gv).dtype != np.asarray(want).dtype:
            r.bad(["storage", "dtype", kind, fn], f"{np.asarray(gv).dtype} instead of {np.asarray(want).dtype}")
            return
        ok = np.allclose(np.asarray(gv, dtype=np.float64), np.asarray(want, dtype=np.float64), rtol=1e-6 if "32" in str(
            np.asarray(want).dtype) else 1e-12, atol=0)
    if not ok:
        r.bad(["storage", "values", kind, fn], f"got {np.asarray(gv).tolist()} want {np.asarray(want).tolist()}")


def subs(ctx):
    return [
        Sub("storage", storage, strategy=storage_case_st(), quick=300, thorough=3000,
            required={"storage_masked": 0.2, "storage_dtype_kw": 0.2, "storage_chain": 0.2}),
        Sub("ufunc_methods", ufunc_method, strategy=umethod_st(), quick=300, thorough=3000),
        Sub("table", numpy_fn, cases=_table_cases()),
        Sub("numpy_fn", numpy_fn, strategy=case_st(), quick=2500, thorough=12000,
            required={"keyword_form": 0.08, "assign_compat": 0.03, "assign_incompat": 0.02, "condition_is_Array": 0.01,
                      "form_swap": 0.02, "out_array_function": 0.01, "non_finite_values": 0.05}),
    ]
