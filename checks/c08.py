"""C08 - Unit conversion preserves the physical quantity; defined units have true values (DESIGN.md C08)."""
import itertools
import warnings

import numpy as np
from hypothesis import strategies as st

from vlib import env
from vlib import strategies as vs
from vlib import unitmodel as um
from vlib.harness import Sub

PROPERTY = "C08"
RULE = ("storage cases: complex128/complex64 values and numpy masked arrays (Array or 2-component Vector) converted between "
        "generated unit pairs; the converted complex number / the mask and the unmasked converted values are compared.  "
        "conversion cases: Array or 1-3 component Vector (dtypes float64/32 int64/32, shapes 0-d/1-d/2-d) x ordered unit "
        "pair within a family (+ a third unit for chains) or across families (must raise; includes length<->frequency/"
        "energy/wavenumber pairs).  Oracle: independent unit model: a.to(u) is the same physical quantity (rtol 1e-9, "
        "64 eps for float32), a is bit-identical afterwards (values buffer, unit, name), a.to(u).to(a.unit) ~ a, "
        "a.to(b).to(c) ~ a.to(c), Vector components = component-wise conversion.  catalogue: every unit defined by the "
        "default configuration x every spelling, exhaustively: value in cgs within the stated latitude of the accepted physical "
        "value (masses 1e-3, nominal radii and luminosities 1e-6, radiation constant 1e-4), all spellings the same number, "
        "equivalent spellings give == units, every symbol of the independent table equals its long name and its table value; "
        "the same constants in a fresh interpreter whose HOME already holds a user configuration (complete, or lacking "
        "configure_constants).  non-trivial = conversion "
        "ratio != 1 (or an incompatible pair); distinct = distinct canonical JSON.")
ASSUMPTIONS = [
    "accepted values: IAU 2015 nominal solar/planetary constants, CODATA radiation constant; latitude per constant (see RULE); "
    "within it the reference model adopts the live value, so that an update of a constant is not reported as a wrong conversion",
    "pint's parsec (au/tan 1\") differs from the IAU definition by 8e-12: rtol 1e-9",
]
osyris = None


def prepare(ctx):
    global osyris
    osyris = env.import_osyris()


@st.composite
def conv_case_st(draw):
    ua, ub, rel = draw(vs.unit_pairs())
    kind = draw(st.sampled_from(["A", "A", "V"]))
    dt = draw(st.sampled_from(vs.DTYPES))
    shape = draw(st.one_of(vs.shapes, vs.shapes, vs.shapes, st.sampled_from([[0], [0, 3]])))
    # magnitudes up to 1e6 / down to 1e-6: times the cgs value of a large unit they leave the float32 range although the
    # converted number does not (1e6 M_sun in M_earth)
    wide = draw(st.booleans())
    lo, hi = (-6, 6) if wide else (-3, 3)
    if kind == "A":
        obj = draw(vs.array_specs(units=[ua], dtypes=[dt], shape=shape, specials=True, lo=lo, hi=hi))
    else:
        obj = draw(vs.vector_specs(units=[ua], dtypes=[dt], shape=shape, lo=lo, hi=hi))
    case = {"obj": obj, "to": ub, "rel": rel, "form": draw(st.sampled_from(["str", "unit"]))}
    if rel != "incompat":
        fam = um.FAMILY_OF[ua]
        case["third"] = draw(st.sampled_from(um.FAMILIES[fam]))
    return case


def _snap(o):
    if isinstance(o, osyris.Vector):
        return tuple(_snap(c) for c in o._xyz.values()) + (o.name,)
    return (o._array.tobytes(), str(o._array.dtype), o._array.shape, str(o.unit), o.name, id(o._array))


def _comps(o):
    return list(o._xyz.values()) if isinstance(o, osyris.Vector) else [o]


def convert(case, r):
    spec = case["obj"]
    obj = vs.build(spec, osyris)
    obj.name = "thing"
    vals, u = vs.model_of(spec)
    vals = vals if isinstance(vals, list) else [vals]
    unit_name = spec["unit"] if spec["k"] == "A" else spec["comps"][0]["unit"]
    dt = spec["dtype"] if spec["k"] == "A" else spec["comps"][0]["dtype"]
    tu = um.parse(case["to"])
    target = case["to"] if case["form"] == "str" else osyris.units(case["to"])
    snap = _snap(obj)
    r.label("rel_" + case["rel"], "kind_" + spec["k"], "dtype_" + dt)
    with warnings.catch_warnings(), np.errstate(all="ignore"):
        warnings.simplefilter("ignore")
        try:
            res = obj.to(target)
            raised = None
        except Exception as e:
            raised, res = e, None
    if _snap(obj) != snap:
        r.bad(["source-modified"], f"to({case['to']}) changed its operand; {spec}")
    if not um.same_dims(u, tu):
        r.nontrivial()
        if raised is None:
            r.bad(["incompatible-no-raise"], f"[{unit_name}].to({case['to']}) returned {res!r}")
        return
    if raised is not None:
        r.bad(["raises", type(raised).__name__], f"[{unit_name}].to({case['to']}): {raised!r}")
        return
    ratio = u[0] / tu[0]
    r.nontrivial(abs(ratio - 1) > 1e-12)
    if type(res) is not type(obj):
        r.bad(["result-type"], f"{type(res).__name__}")
        return
    rc = _comps(res)
    if len(rc) != len(vals):
        r.bad(["vector-components-lost"], f"{len(rc)} components, expected {len(vals)}")
        return
    rtol = 64 * float(np.finfo(np.float32).eps) if dt == "float32" else 1e-9
    for ci, (c, v) in enumerate(zip(rc, vals)):
        if c.unit != osyris.units(case["to"]):
            r.bad(["result-unit"], f"component {ci}: unit {c.unit} != {case['to']}")
            return
        got = np.asarray(c.values, dtype=np.float64)
        want = um.convert(v, u, tu)
        if got.shape != want.shape:
            r.bad(["shape"], f"{got.shape} vs {want.shape}")
            return
        with np.errstate(all="ignore"):
            ok = (np.abs(got - want) <= rtol * np.abs(want)) | (got == want) | (np.isnan(got) & np.isnan(want))
            if dt == "float32":
                ok |= np.isinf(got) & (np.abs(want) > 3e38)
                ok |= (np.abs(want) < 1.2e-38) & (np.abs(got - want) < 1.5e-45 + rtol * np.abs(want) + 1e-38 * 1e-6)
        if not np.all(ok):
            i = int(np.argmin(ok.ravel()))
            r.bad(["values", "dtype=" + dt], f"component {ci} el {i}: {np.ravel(v)[i]!r} [{unit_name}] -> got "
                  f"{np.ravel(got)[i]!r} want {np.ravel(want)[i]!r} [{case['to']}]")
            return
    # round trip and chain (float results; skip float32 range overflow)
    with warnings.catch_warnings(), np.errstate(all="ignore"):
        warnings.simplefilter("ignore")
        try:
            back = res.to(unit_name)
            third = case.get("third", unit_name)
            chain = res.to(third)
            direct = obj.to(third)
        except Exception as e:
            r.bad(["roundtrip-raises", type(e).__name__], repr(e))
            return
    rt = 4 * rtol
    for ci, (cb, cc, cd, v) in enumerate(zip(_comps(back), _comps(chain), _comps(direct), vals)):
        with np.errstate(all="ignore"):
            gb = np.asarray(cb.values, dtype=np.float64)
            finite = np.isfinite(v) & np.isfinite(np.asarray(rc[ci].values, dtype=np.float64))
            if dt == "float32":
                finite &= np.abs(np.asarray(rc[ci].values, dtype=np.float64)) > 1e-30
            okb = ~finite | (np.abs(gb - v) <= rt * np.abs(v))
            g1 = np.asarray(cc.values, dtype=np.float64)
            g2 = np.asarray(cd.values, dtype=np.float64)
            fin2 = finite & np.isfinite(g1) & np.isfinite(g2)
            if dt == "float32":
                fin2 &= (np.abs(g2) > 1e-30)
            okc = ~fin2 | (np.abs(g1 - g2) <= rt * np.abs(g2))
        if not np.all(okb):
            i = int(np.argmin(okb.ravel()))
            r.bad(["roundtrip", "dtype=" + dt], f"{np.ravel(v)[i]!r} [{unit_name}] -> [{case['to']}] -> back = {np.ravel(gb)[i]!r}")
            return
        if not np.all(okc):
            i = int(np.argmin(okc.ravel()))
            r.bad(["chain", "dtype=" + dt], f"[{unit_name}]->[{case['to']}]->[{third}] = {np.ravel(g1)[i]!r} but direct "
                  f"{np.ravel(g2)[i]!r}")
            return


# ------------------------------------------------------------------ catalogue (finite, exhaustive)
# accepted physical values in cgs (IAU 2015 Resolution B3 nominal values; CODATA 2018 for a_r; IAU B2 for L_bol0)
ACCEPTED = {
    "solar_mass": (1.98841e33, "g", ["solar_mass", "M_sun", "M_sol"]),
    "earth_mass": (5.9722e27, "g", ["earth_mass", "M_earth"]),
    "jupiter_mass": (1.89813e30, "g", ["jupiter_mass", "M_jup"]),
    "solar_radius": (6.957e10, "cm", ["solar_radius", "R_sun", "R_sol"]),
    "earth_radius": (6.3781e8, "cm", ["earth_radius", "R_earth"]),
    "jupiter_radius": (7.1492e9, "cm", ["jupiter_radius", "R_jup"]),
    "solar_luminosity": (3.828e33, "erg/s", ["solar_luminosity", "L_sun", "L_sol"]),
    "bolometric_luminosity": (3.0128e35, "erg/s", ["bolometric_luminosity", "L_bol0"]),
    "radiation_constant": (7.565733e-15, "erg/cm**3/K**4", ["radiation_constant", "ar"]),
}
SPELLING_SETS = [
    ["g/cm**3", "g / cm ** 3", "g*cm**-3", "g/cm^3", "gram/centimeter**3", "cm**-3*g"],
    ["km/s", "km / s", "km*s**-1", "kilometer/second", "s**-1*km"],
    ["erg/s", "erg*s**-1", "erg / s"],
    ["M_sun/pc**3", "solar_mass/parsec**3", "M_sol / pc^3", "pc**-3*M_sun"],
    ["dimensionless", ""],
    ["au", "astronomical_unit"],
    ["yr", "year"],
]


def _catalogue_cases():
    out = []
    for name, (val, base, spellings) in ACCEPTED.items():
        for sp in spellings:
            out.append({"t": "value", "name": name, "spelling": sp})
        for s1, s2 in itertools.combinations(spellings, 2):
            out.append({"t": "alias", "s1": s1, "s2": s2})
    for sset in SPELLING_SETS:
        for s1, s2 in itertools.combinations(sset, 2):
            out.append({"t": "alias", "s1": s1, "s2": s2})
    for fam, us in um.FAMILIES.items():
        for u in us:
            out.append({"t": "table", "unit": u})
    # every symbol of the independent table against the live registry, and against its long name (a definition added to
    # the configuration must not take over the symbol of an existing unit, e.g. G, N, Pa, mm, min)
    for sym, longname in um.SYMBOL.items():
        if longname and sym not in um.ALL_UNITS:
            out.append({"t": "table", "unit": sym})
        if longname and longname != sym:
            out.append({"t": "alias", "s1": sym, "s2": longname})
    # configurations: the user's file may pre-exist and may lack configure_constants
    for how in ("partial_user_config", "populated_user_config"):
        out.append({"t": "config", "how": how})
    # spellings in which a blank means multiplication; the compact string without the blank is a *different*
    # (prefixed) unit, and both are asked in both orders within this process
    for spaced, same_as, compact, compact_same_as in [("m s**-1", "m/s", "ms**-1", "1/millisecond"),
                                                      ("m K", "m*K", "mK", "millikelvin"),
                                                      ("G yr", "G*yr", "Gyr", "gigayear")]:
        out.append({"t": "spacing", "order": [spaced, compact], "pairs": [[spaced, same_as]], "compact": [compact, compact_same_as]})
        out.append({"t": "spacing", "order": [compact, spaced], "pairs": [[spaced, same_as]], "compact": [compact, compact_same_as]})
    return out


def catalogue(case, r):
    r.nontrivial()
    t = case["t"]
    if t == "value":
        val, base, _ = ACCEPTED[case["name"]]
        try:
            a = osyris.Array(values=1.0, unit=case["spelling"])
            got = float(a.to(base).values)
        except Exception as e:
            r.bad(["catalogue-raises", case["name"], case["spelling"]], repr(e))
            return
        tolv = um.ACCEPTED[case["name"]][1]
        if abs(got / val - 1) > tolv:
            r.bad(["constant-value", case["name"]], f"1 {case['spelling']} = {got!r} {base}, accepted {val!r} (latitude {tolv})")
        # every spelling of the constant is the same number (the model takes its factor from the canonical name)
        live = um.TABLE[case["name"]][0]
        if abs(got / live - 1) > 1e-12:
            r.bad(["constant-spellings-disagree", case["name"]], f"1 {case['spelling']} = {got!r} {base}, 1 {case['name']} = {live!r}")
        # the same through the unit object and to_base_units-free path: Array.to with a Unit object
        try:
            got2 = float(osyris.Array(values=2.0, unit=osyris.units(case["spelling"])).to(osyris.units(base)).values)
            if abs(got2 / (2 * got) - 1) > 1e-12:
                r.bad(["constant-nonlinear", case["name"]], f"{got2} vs {2 * got}")
        except Exception as e:
            r.bad(["catalogue-raises", case["name"], case["spelling"]], repr(e))
    elif t == "spacing":
        try:
            for sp in case["order"]:
                osyris.units(sp)
            for s1, s2 in case["pairs"]:
                u1, u2 = osyris.units(s1), osyris.units(s2)
                if not (u1 == u2):
                    r.bad(["spellings-differ", "blank-means-multiplication"], f"units({s1!r}) = {u1!r} != units({s2!r}) = {u2!r} "
                          f"after asking {case['order']}")
                    return
                a = osyris.Array(values=2.0, unit=s1)
                f1, d1 = um.from_pint(a.unit)
                f2, d2 = um.from_pint(osyris.units(s2))
                if abs(f1 / f2 - 1) > 1e-12 or not um.same_dims((f1, d1), (f2, d2)):
                    r.bad(["spellings-differ", "blank-means-multiplication"], f"Array(unit={s1!r}) has unit {a.unit}")
                    return
            c1, c2 = case["compact"]
            if not (osyris.units(c1) == osyris.units(c2)):
                r.bad(["spellings-differ", "prefixed-unit"], f"units({c1!r}) = {osyris.units(c1)!r} != units({c2!r}) = "
                      f"{osyris.units(c2)!r} after asking {case['order']}")
                return
        except um.UnknownUnit as e:
            # the unit is no longer one the independent table knows: its symbol was given another meaning
            r.bad(["spelling-unknown-unit", str(case["order"])], repr(e))
        except Exception as e:
            r.bad(["spelling-rejected", str(case["order"])], repr(e))
    elif t == "config":
        _config_case(case, r)
    elif t == "alias":
        try:
            u1, u2 = osyris.units(case["s1"]), osyris.units(case["s2"])
        except Exception as e:
            r.bad(["spelling-rejected", case["s1"], case["s2"]], repr(e))
            return
        if not (u1 == u2):
            r.bad(["spellings-differ", case["s1"], case["s2"]], f"{u1!r} != {u2!r}")
        if osyris.units(u1) is not u1:
            r.bad(["unit-object-not-passed-through"], case["s1"])
    else:
        # every generator unit: model factor vs live registry (conversion of 1.0 to the cgs base spelling)
        u = case["unit"]
        f, dims = um.parse(u)
        base = "cm**{}*g**{}*s**{}*K**{}".format(*[float(x) for x in dims])
        try:
            got = float(osyris.Array(values=1.0, unit=u).to(base).values)
        except Exception as e:
            r.bad(["catalogue-raises", u], repr(e))
            return
        if abs(got / f - 1) > 1e-9:
            r.bad(["unit-table-mismatch", u], f"1 {u} = {got!r} {base}; independent table says {f!r}")


_CONFIG_SCRIPT = """
import json, sys
import osyris
out = {}
for name, base in %r:
    out[name] = float((1.0 * osyris.units(name)).to(base).magnitude)
print("CONSTANTS=" + json.dumps(out))
"""


def _config_case(case, r):
    """A fresh interpreter with a prepared HOME: an older user file that only defines additional_variables, or a file
    that is already there; the nine defined units must have their default values either way."""
    import json
    import os
    import shutil
    import subprocess
    import sys

    home = env.scratch_dir("home_")
    try:
        cfg = os.path.join(home, ".osyris")
        os.makedirs(cfg)
        src = env.osyris_src()
        if case["how"] == "partial_user_config":
            with open(os.path.join(cfg, "config_osyris.py"), "w") as f:
                f.write("def additional_variables(data):\n    pass\n")
        else:
            shutil.copyfile(os.path.join(src, "osyris", "config", "defaults.py"), os.path.join(cfg, "config_osyris.py"))
        pairs = [(n, "cm**{}*g**{}*s**{}*K**{}".format(*[float(x) for x in um.TABLE[n][1]])) for n in um.ACCEPTED]
        envv = dict(os.environ, HOME=home, PYTHONPATH=src, MPLBACKEND="Agg", MPLCONFIGDIR=os.path.join(home, "mpl"))
        p = subprocess.run([sys.executable, "-c", _CONFIG_SCRIPT % (pairs,)], env=envv, capture_output=True, text=True, timeout=300)
        line = [ln for ln in p.stdout.splitlines() if ln.startswith("CONSTANTS=")]
        if p.returncode != 0 or not line:
            r.bad(["config", case["how"], "import-fails"], (p.stderr or p.stdout)[-400:])
            return
        got = json.loads(line[0][len("CONSTANTS="):])
        for name, (val, tolv) in um.ACCEPTED.items():
            if abs(got[name] / val - 1) > tolv:
                r.bad(["config", case["how"], "constant-value", name], f"1 {name} = {got[name]!r}, accepted {val!r}")
                return
    finally:
        shutil.rmtree(home, ignore_errors=True)


# ------------------------------------------------------------------ other kinds of storage
@st.composite
def storage_case_st(draw):
    ua, ub, rel = draw(vs.unit_pairs())
    n = draw(st.integers(1, 6))
    num = st.floats(-1e3, 1e3, allow_nan=False).filter(lambda x: x == 0 or abs(x) > 1e-3)
    return {"kind": draw(st.sampled_from(["complex128", "complex64", "masked", "masked"])), "from": ua, "to": ub, "rel": rel,
            "vector": draw(st.integers(0, 3)) == 0,
            "re": draw(st.lists(num, min_size=n, max_size=n)), "im": draw(st.lists(num, min_size=n, max_size=n)),
            "mask": draw(st.lists(st.booleans(), min_size=n, max_size=n))}


def storage(case, r):
    """to() on values that are complex numbers or a numpy masked array: every part of the value is converted or kept"""
    kind = case["kind"]
    r.label("storage_" + kind, "rel_" + case["rel"])
    r.nontrivial(case["rel"] == "compat")
    re_, im_ = np.array(case["re"]), np.array(case["im"])
    if kind.startswith("complex"):
        vals = (re_ + 1j * im_).astype(kind)
    else:
        vals = np.ma.masked_array(re_.copy(), mask=np.array(case["mask"]))
    a = osyris.Array(values=vals.copy(), unit=case["from"])
    obj = osyris.Vector(a, osyris.Array(values=vals.copy(), unit=case["from"])) if case["vector"] else a
    try:
        out = obj.to(case["to"])
        raised = None
    except Exception as e:
        out, raised = None, e
    fa, fb = um.parse(case["from"]), um.parse(case["to"])
    if not um.same_dims(fa, fb):
        if raised is None:
            r.bad(["storage", "incompatible-no-raise", kind], f"[{case['from']}] -> [{case['to']}] returned {out!r}")
        return
    if raised is not None:
        r.bad(["storage", "raises", kind, type(raised).__name__], f"[{case['from']}] -> [{case['to']}]: {raised!r}")
        return
    f = fa[0] / fb[0]
    tol = 8e-6 if kind == "complex64" else 1e-9           # (rtol 1e-9 as for the real conversions: pint's parsec)
    for c in (list(out._xyz.values()) if case["vector"] else [out]):
        got = c.values
        if kind.startswith("complex"):
            g = np.asarray(got)
            if not np.iscomplexobj(g) or np.any(np.abs(g - vals.astype(np.complex128) * f) > tol * np.abs(vals) * abs(f)):
                r.bad(["storage", "values", kind], f"{vals.tolist()} [{case['from']}] -> [{case['to']}] gave {g.tolist()} "
                      f"(factor {f!r}): the value is not the converted complex number")
                return
        else:
            if not isinstance(got, np.ma.MaskedArray) or not np.array_equal(np.ma.getmaskarray(got), np.ma.getmaskarray(vals)):
                r.bad(["storage", "mask-lost", kind], f"mask {case['mask']} of the values is "
                      f"{np.ma.getmaskarray(got).tolist() if isinstance(got, np.ma.MaskedArray) else 'gone (plain ndarray)'} "
                      f"after to({case['to']!r})")
                return
            keep = ~np.ma.getmaskarray(vals)
            g = np.ma.getdata(got)[keep]
            if np.any(np.abs(g - re_[keep] * f) > tol * np.abs(re_[keep] * f)):
                r.bad(["storage", "values", kind], f"unmasked values {re_[keep].tolist()} -> {g.tolist()} (factor {f!r})")
                return


def subs(ctx):
    return [
        Sub("catalogue", catalogue, cases=_catalogue_cases()),
        Sub("storage", storage, strategy=storage_case_st(), quick=300, thorough=3000,
            required={"storage_masked": 0.2, "storage_complex128": 0.1}),
        Sub("convert", convert, strategy=conv_case_st(), quick=2500, thorough=12000,
            required={"rel_incompat": 0.1, "rel_compat": 0.3, "kind_V": 0.15}),
    ]
