#!/venv/bin/python
"""Single entry point:  run.py <ID> [--tier quick|thorough] [--replay FILE]

exit 0: property held on everything explored (KNOWN-FINDING lines possible)
exit 1: unlisted violation(s); each printed as  VIOLATION property=<ID> replay=<path>
exit 2: harness error (never a violation)
"""
import argparse
import importlib
import json
import os
import subprocess
import sys
import tempfile
import time
import traceback

HERE = os.path.dirname(os.path.abspath(__file__))
sys.path.insert(0, HERE)

from vlib import env  # noqa: E402

NWORKERS = int(os.environ.get("VERIF_WORKERS", "16"))


def load_module(prop):
    return importlib.import_module(f"checks.{prop.lower()}")


def run_shard(prop, tier, seed, shard, nshards):
    from vlib import harness

    env.setup()
    module = load_module(prop)
    ctx = harness.Ctx(prop, tier, seed, shard, nshards)
    if hasattr(module, "prepare"):
        module.prepare(ctx)
    ctx.run_regress(module)
    for sub in module.subs(ctx):
        ctx.search(sub)
    return ctx.partial()


def finish(prop, tier, seed, merged, wall_s, nshards):
    from vlib import harness

    module = load_module(prop)
    # generator health on merged counts is already evaluated per shard (harness_errors)
    path = harness.write_evidence(prop, module, tier, seed, merged, wall_s, nshards)
    for key, hit in merged["known_hits"].items():
        print(f"KNOWN-FINDING: property={prop} {hit['what']} (met {hit['count']}x)")
    for v in merged["violations"]:
        print(f"VIOLATION property={prop} replay={v['replay']}")
        print(f"  sub={v['sub']} signature={v['signature']} detail={v['detail'][:300]}")
    n = merged["counters"].get("evaluations", 0)
    print(f"{prop} {tier}: evaluations={n} distinct_nontrivial={len(merged['nontrivial'])} "
          f"violations={len(merged['violations'])} wall={wall_s:.1f}s evidence={os.path.relpath(path, HERE)}")
    if merged["violations"]:
        return 1
    if merged["harness_errors"]:
        for e in merged["harness_errors"]:
            print("HARNESS-ERROR:", e, file=sys.stderr)
        return 2
    return 0


def main():
    ap = argparse.ArgumentParser()
    ap.add_argument("prop")
    ap.add_argument("--tier", default=os.environ.get("VERIF_TIER", "quick"), choices=["quick", "thorough"])
    ap.add_argument("--replay")
    ap.add_argument("--shard", type=int)
    ap.add_argument("--nshards", type=int, default=1)
    ap.add_argument("--partial-out")
    args = ap.parse_args()
    prop = args.prop.upper()
    try:
        seed = int(os.environ.get("VERIF_SEED", "0") or 0)
    except ValueError:
        seed = 0
    os.chdir(HERE)
    t0 = time.time()
    # watchdog: a hung harness is a harness error (exit 2), never a violation
    import faulthandler
    import signal

    def _watchdog(signum, frame):
        faulthandler.dump_traceback(file=sys.stderr)
        print("HARNESS-ERROR: watchdog expired (inconclusive, not a violation)", file=sys.stderr)
        os._exit(2)

    limit = int(os.environ.get("VERIF_WATCHDOG_S", "1500" if args.tier == "quick" else "14000"))
    signal.signal(signal.SIGALRM, _watchdog)
    signal.alarm(limit)

    try:
        if args.replay:
            from vlib import harness

            env.setup()
            module = load_module(prop)
            ctx = harness.Ctx(prop, "quick", seed)
            if hasattr(module, "prepare"):
                module.prepare(ctx)
            with open(args.replay) as f:
                rdata = json.load(f)
            if rdata.get("crash"):
                e = dict(os.environ, VERIF_SEED=str(rdata["seed"]))
                out = os.path.join(tempfile.mkdtemp(prefix="osyverif_rep_"), "part.json")
                p = subprocess.run([sys.executable, os.path.abspath(__file__), prop, "--tier", rdata["tier"], "--shard",
                                    str(rdata["shard"]), "--nshards", str(rdata["nshards"]), "--partial-out", out], env=e)
                if p.returncode < 0 or p.returncode in (134, 139):
                    print(f"VIOLATION property={prop} replay={args.replay}")
                    return 1
                print(f"replay {args.replay}: worker finished with return code {p.returncode}")
                return 0
            sub, case, r = ctx.replay_file(module, args.replay)
            unlisted = [rec for rec in r.records if ctx.findings.match(rec["signature"]) is None]
            for rec in r.records:
                tag = "VIOLATION-RECORD" if rec in unlisted else "KNOWN-FINDING-RECORD"
                print(tag, rec["signature"], rec["detail"])
            if unlisted:
                print(f"VIOLATION property={prop} replay={args.replay}")
                return 1
            print(f"replay {args.replay}: property held")
            return 0

        if args.shard is not None:
            part = run_shard(prop, args.tier, seed, args.shard, args.nshards)
            with open(args.partial_out, "w") as f:
                json.dump(part, f, default=repr)
            return 0

        # every tier runs its shards in worker processes (quick: one worker), so that a crash of the code under
        # test (segfault / abort in a numba kernel) is caught and reported instead of killing the check
        nworkers = 1 if args.tier == "quick" else NWORKERS
        tmp = tempfile.mkdtemp(prefix="osyverif_par_")
        procs = []
        for i in range(nworkers):
            out = os.path.join(tmp, f"part{i}.json")
            e = dict(os.environ)
            e.setdefault("NUMBA_NUM_THREADS", "16")
            e.setdefault("PYTHONWARNINGS", "ignore")      # (thousands of numpy RuntimeWarnings would bury a traceback)
            p = subprocess.Popen([sys.executable, os.path.abspath(__file__), prop, "--tier", args.tier,
                                  "--shard", str(i), "--nshards", str(nworkers), "--partial-out", out],
                                 env=e, stdout=subprocess.PIPE, stderr=subprocess.PIPE, text=True)
            procs.append((p, out))
        parts = []
        failed = []
        retried = []
        for i, (p, out) in enumerate(procs):
            so, se = p.communicate()
            if p.returncode == 2 or (p.returncode == 0 and not os.path.exists(out)):
                # a harness error is no verdict about the code: keep its output for diagnosis and run the shard once more
                os.makedirs(os.path.join(HERE, "replays", prop), exist_ok=True)
                with open(os.path.join(HERE, "replays", prop, f"harness-error-seed{seed}-shard{i}.log"), "w") as f:
                    f.write(se[-20000:])
                e = dict(os.environ)
                e.setdefault("NUMBA_NUM_THREADS", "16")
                p = subprocess.Popen([sys.executable, os.path.abspath(__file__), prop, "--tier", args.tier,
                                      "--shard", str(i), "--nshards", str(nworkers), "--partial-out", out],
                                     env=e, stdout=subprocess.PIPE, stderr=subprocess.PIPE, text=True)
                so, se = p.communicate()
                if p.returncode == 0 and os.path.exists(out):
                    retried.append(i)
            if p.returncode != 0 or not os.path.exists(out):
                failed.append((i, p.returncode, se[-3000:]))
                continue
            with open(out) as f:
                parts.append(json.load(f))
        import shutil

        shutil.rmtree(tmp, ignore_errors=True)
        from vlib import harness

        merged = harness.merge_partials(parts) if parts else harness.merge_partials([])
        for i in retried:
            merged.setdefault("notes", []).append(f"worker {i} ended with a harness error once and completed on the second "
                                                 f"attempt (output kept in replays/{prop}/harness-error-seed{seed}-shard{i}.log)")
        for i, rc, se in failed:
            if rc is not None and (rc < 0 or rc in (134, 139)):
                # killed by a signal: the code under test crashed the interpreter on generated input
                rel = os.path.join("replays", prop, f"crash-seed{seed}-shard{i}.json")
                os.makedirs(os.path.join(HERE, "replays", prop), exist_ok=True)
                with open(os.path.join(HERE, rel), "w") as f:
                    json.dump({"property": prop, "crash": True, "seed": seed, "tier": args.tier, "shard": i,
                               "nshards": nworkers, "returncode": rc, "stderr_tail": se[-1500:]}, f, indent=1)
                merged["violations"].append({"sub": "*", "signature": ["process-crashed", f"signal={-rc if rc < 0 else rc}"],
                                             "detail": f"worker {i} died with return code {rc} while running generated "
                                                       f"cases (memory corruption / abort in the code under test): {se[-300:]}",
                                             "replay": rel})
            else:
                merged["harness_errors"].append(f"worker {i} exited {rc}: {se}")
        return finish(prop, args.tier, seed, merged, time.time() - t0, nworkers)
    except Exception:
        traceback.print_exc()
        print("HARNESS-ERROR: internal exception (see traceback); not a violation", file=sys.stderr)
        return 2


if __name__ == "__main__":
    sys.exit(main())
