"""Process set-up shared by every check (DESIGN.md section 2.1).

Must be imported (and `setup()` called) BEFORE osyris is imported.
"""
import atexit
import os
import shutil
import sys
import tempfile

VERIF_ROOT = os.path.dirname(os.path.dirname(os.path.abspath(__file__)))
_state = {}


def osyris_src():
    return os.path.abspath(os.environ.get("OSYRIS_SRC", "/repo/src"))


def setup():
    """Isolate HOME, pin the osyris sources to the working tree, quiet matplotlib."""
    if _state:
        return _state
    tmp = tempfile.mkdtemp(prefix="osyverif_")
    _state["tmp"] = tmp
    atexit.register(shutil.rmtree, tmp, True)
    home = os.path.join(tmp, "home")
    os.makedirs(home)
    # osyris.config copies defaults.py to ~/.osyris on first import and prefers the copy:
    # a fresh HOME makes every run read the working tree's defaults.
    os.environ["HOME"] = home
    os.environ["MPLBACKEND"] = "Agg"
    os.environ.setdefault("PYTHONHASHSEED", "0")
    os.environ["MPLCONFIGDIR"] = os.path.join(tmp, "mpl")
    os.environ["NUMBA_CACHE_DIR"] = os.path.join(tmp, "numba")
    # the guard for (non-existent) hooks: recorded in MANIFEST.hooks
    os.environ.setdefault("OSYRIS_VERIF", "1")
    deps = os.path.join(VERIF_ROOT, ".deps")
    if os.path.isdir(deps) and deps not in sys.path:
        sys.path.append(deps)
    src = osyris_src()
    if src in sys.path:
        sys.path.remove(src)
    sys.path.insert(0, src)
    _state["src"] = src
    return _state


def import_osyris():
    st = setup()
    import osyris  # noqa

    f = os.path.abspath(osyris.__file__)
    if not f.startswith(st["src"] + os.sep):
        raise RuntimeError(f"osyris imported from {f}, expected under {st['src']}")
    if not st.get("calibrated"):
        from . import unitmodel
        st["calibrated"] = unitmodel.calibrate(osyris)
    return osyris


def scratch_dir(prefix="case_"):
    st = setup()
    return tempfile.mkdtemp(prefix=prefix, dir=st["tmp"])
