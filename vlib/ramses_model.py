"""Explicit AMR tree / particle / sink model and a sequential RAMSES file writer (DESIGN.md 2.4, Appendix A).

The writer emits Fortran unformatted sequential records one at a time (int32 len | payload | int32 len), the way
RAMSES' backup_amr/backup_hydro/backup_poisson/rt/backup_part do; it shares no code with osyris' loader.
The expected tables are computed from the model, never from the files.
"""
import math
import os
import struct

import numpy as np

from . import hilbert_ref

POISON = -7.777e33


# ------------------------------------------------------------------ unit factors (RAMSES conventions)
def _d(l=0.0, m=0.0, t=0.0, k=0.0):
    return (l, m, t, k)


def var_factor(name, ud, ul, ut):
    """-> (factor to cgs, dims (L, M, T, K)) of a mesh/particle variable from RAMSES' conventions."""
    vel = ul / ut
    if name == "density":
        return ud, _d(-3, 1)
    if name.startswith("velocity_") or name == "velocity":
        return vel, _d(1, 0, -1)
    if name.startswith("momentum"):
        return ud * vel, _d(-2, 1, -1)
    if name.startswith("B_") and (name.endswith("_left") or name.endswith("_right") or name[2:].startswith("left_")
                                  or name[2:].startswith("right_") or name[2:].startswith("field_")):
        return math.sqrt(4.0 * math.pi * ud * vel ** 2), _d(-0.5, 0.5, -1)
    if name in ("thermal_pressure", "pressure", "internal_energy", "energy", "radiative_energy") or \
            name.startswith("radiative_energy_"):
        return ud * vel ** 2, _d(-1, 1, -2)
    if name == "temperature":
        return 1.0, _d(0, 0, 0, 1)
    if name == "grav_potential":
        return vel ** 2, _d(2, 0, -2)
    if name.startswith("grav_acceleration"):
        return ul / ut ** 2, _d(1, 0, -2)
    if name in ("x", "y", "z", "dx", "position", "length") or name.startswith("position_"):
        return ul, _d(1)
    if name == "mass":
        return ud * ul ** 3, _d(0, 1)
    if name == "time":
        return ut, _d(0, 0, 1)
    return 1.0, _d()


# ------------------------------------------------------------------ tree
class Level:
    __slots__ = ("centre", "owner", "refined", "values", "father_key")


class Model:
    pass


def _father_keys(centres, ndim, levelmax):
    """Hilbert key (levelmax+1 bits per dimension) of box coordinates in [0,1)."""
    bits = levelmax + 1
    ijk = np.floor(centres * (1 << bits)).astype(np.int64)
    ijk = np.clip(ijk, 0, (1 << bits) - 1)
    return np.asarray(hilbert_ref.keys(ijk, ndim, bits))


def child_offsets(ndim):
    """[2^ndim, ndim] offsets of child cells in units of the cell size (ind = ix + 2 iy + 4 iz)."""
    out = np.zeros((2 ** ndim, ndim))
    for ind in range(2 ** ndim):
        iz = ind // 4
        iy = (ind - 4 * iz) // 2
        ix = ind - 2 * iy - 4 * iz
        for d, i in enumerate((ix, iy, iz)[:ndim]):
            out[ind, d] = i - 0.5
    return out


def build_model(case):
    """case: plain dict (see ramses_cases) -> Model with an explicit tree, owners, values, particles, sinks."""
    m = Model()
    m.case = case
    ndim, ncpu = case["ndim"], case["ncpu"]
    lmin, lmax = case["levelmin"], case["levelmax"]
    rng = np.random.RandomState(case["seed"])
    m.ndim, m.ncpu, m.levelmin, m.levelmax = ndim, ncpu, lmin, lmax
    m.twotondim = 2 ** ndim
    m.nboundary = case["nboundary"]
    m.boxlen = case["boxlen"]
    m.ud, m.ul, m.ut = case["unit_d"], case["unit_l"], case["unit_t"]
    m.time = case["time"]
    m.hydro_vars = list(case["hydro_vars"])
    m.grav = bool(case["grav"])
    m.rt_vars = list(case.get("rt_vars") or [])
    m.grav_vars = (["grav_potential"] + ["grav_acceleration_" + "xyz"[d] for d in range(ndim)]) if m.grav else []
    m.mesh_vars = m.hydro_vars + m.grav_vars + m.rt_vars
    # bound keys
    nkeys = 1 << (ndim * (lmax + 1))
    m.bound_key = _make_bound_keys(case, nkeys, rng)
    if nkeys > 2 ** 53:
        # the files hold the keys as doubles: beyond 2**53 the stored value is the rounded one, and that is what decides
        # the ownership (a cut that is not representable would otherwise disagree with the file by one key)
        keys = [int(float(k)) for k in m.bound_key]
        for i in range(1, len(keys) - 1):
            if keys[i] <= keys[i - 1]:
                keys[i] = int(np.nextafter(float(keys[i - 1]), np.inf))
        keys[0], keys[-1] = 0, max(int(float(nkeys)), keys[-2] + 1)
        m.bound_key = keys
    off = child_offsets(ndim)
    m.levels = []
    probs = case["refine_p"]
    centres = np.full((1, ndim), 0.5)
    fkeys = _father_keys(centres, ndim, lmax)
    ncells_budget = case.get("max_cells", 3000)
    total = 0
    for l in range(1, lmax + 1):
        lv = Level()
        n = len(centres)
        lv.centre = centres
        lv.father_key = fkeys
        if case["ordering"] == "hilbert" or case.get("owner_by_key", True):
            lv.owner = np.searchsorted(np.asarray(m.bound_key[1:], dtype=object if nkeys > 2 ** 62 else np.int64),
                                       fkeys, side="right").astype(np.int64)
            lv.owner = np.clip(lv.owner, 0, ncpu - 1)
        else:
            lv.owner = rng.randint(0, ncpu, size=n)
        if l < lmin:
            ref = np.ones((n, m.twotondim), dtype=bool)
        elif l >= lmax:
            ref = np.zeros((n, m.twotondim), dtype=bool)
        else:
            p = probs[min(l - lmin, len(probs) - 1)]
            ref = rng.random_sample((n, m.twotondim)) < p
            if case.get("deep_toward") and n > 0:
                # refine the cell that contains the point just below `deep_toward` in every dimension: a chain of ever
                # finer cells hugging that point (used to put the deepest levels next to a coarse cube boundary)
                tgt = np.array(case["deep_toward"][:ndim]) - 1e-9
                cc = centres[:, None, :] + off[None, :, :] * (0.5 ** l)
                inside = np.all(np.abs(cc - tgt[None, None, :]) <= 0.5 * 0.5 ** l, axis=2)
                ref |= inside
            elif case.get("deep_branch") and n > 0:
                ref[rng.randint(n), rng.randint(m.twotondim)] = True
            if total + ref.sum() * m.twotondim > ncells_budget:
                ref[:] = False
        total += n * m.twotondim
        lv.refined = ref
        lv.values = {v: _values(rng, (n, m.twotondim), v) for v in m.mesh_vars}
        m.levels.append(lv)
        # next level octs: one per refined cell, centred on the cell
        dx = 0.5 ** l
        cell_centres = centres[:, None, :] + off[None, :, :] * dx
        sel = ref
        centres = cell_centres[sel]
        fkeys = _father_keys(centres, ndim, lmax) if len(centres) else np.zeros(0, dtype=np.int64)
        if len(centres) == 0:
            for l2 in range(l + 1, lmax + 1):
                e = Level()
                e.centre = np.zeros((0, ndim))
                e.owner = np.zeros(0, dtype=np.int64)
                e.father_key = np.zeros(0, dtype=np.int64)
                e.refined = np.zeros((0, m.twotondim), dtype=bool)
                e.values = {v: np.zeros((0, m.twotondim)) for v in m.mesh_vars}
                m.levels.append(e)
            break
    _build_particles(m, case, rng)
    _build_sinks(m, case, rng)
    m.rng_files = np.random.RandomState(case["seed"] + 1)
    return m


def _values(rng, shape, name):
    v = rng.uniform(0.5, 2.0, size=shape) * 10.0 ** rng.randint(-3, 4, size=shape)
    if not (name in ("density", "temperature", "pressure", "thermal_pressure") or name.startswith("radiative")):
        v *= rng.choice([-1.0, 1.0], size=shape)
    return v


def _make_bound_keys(case, nkeys, rng):
    ncpu = case["ncpu"]
    mode = case.get("key_mode", "uniform")
    if ncpu == 1:
        return [0, nkeys]
    if mode == "uniform" or nkeys <= ncpu * 2:
        cuts = sorted(set(int(nkeys * (i + 1) // ncpu) for i in range(ncpu - 1)))
    elif mode == "random":
        cuts = sorted(set(int(x) for x in (rng.random_sample(ncpu - 1) * nkeys)))
    elif mode == "clustered":
        c = rng.random_sample() * nkeys
        w = nkeys * 10.0 ** rng.uniform(-4, -1)
        cuts = sorted(set(int(min(max(c + (x - 0.5) * w, 1), nkeys - 1)) for x in rng.random_sample(ncpu - 1)))
    elif mode in ("tail", "head"):
        # all cuts packed at one end of the key range: the first / last domains hold only keys of one corner cube
        w = max(int(nkeys * 10.0 ** rng.uniform(-3.5, -1.0)), ncpu + 1)
        offs = sorted(set(int(x) for x in rng.randint(1, w, size=ncpu - 1)))
        cuts = [nkeys - o for o in offs] if mode == "tail" else offs
        cuts = sorted(set(cuts))
    else:  # "cube": cuts at boundaries of coarse cubes +-1
        lev = rng.randint(1, case["levelmax"] + 1)
        span = nkeys // (1 << (case["ndim"] * lev))
        cuts = sorted(set(int(min(max(rng.randint(1, max(nkeys // max(span, 1), 2)) * span + rng.randint(-1, 2), 1),
                                  nkeys - 1)) for _ in range(ncpu - 1)))
    cuts = [c for c in cuts if 0 < c < nkeys]
    if nkeys - 1 < ncpu - 1:
        raise ValueError("more CPUs than Hilbert keys")
    # make strictly increasing with exactly ncpu-1 interior cuts
    tries = 0
    while len(cuts) < ncpu - 1:
        tries += 1
        if nkeys > 2 ** 62:
            cand = max(1, min(int(rng.random_sample() * nkeys), nkeys - 1))        # (beyond what randint takes)
        else:
            cand = int(rng.randint(1, nkeys)) if tries < 200 else next(c for c in range(1, nkeys) if c not in cuts)
        if cand not in cuts:
            cuts.append(cand)
            cuts.sort()
    if len(cuts) > ncpu - 1:
        keep = sorted(rng.choice(len(cuts), size=ncpu - 1, replace=False).tolist())
        cuts = [cuts[i] for i in keep]
    return [0] + cuts + [nkeys]


# ------------------------------------------------------------------ particles & sinks
PTYPES = {"d": np.float64, "i": np.int32, "b": np.int8}


def _build_particles(m, case, rng):
    m.part_desc = [tuple(x) for x in (case.get("part_desc") or [])]
    m.part = None
    if not m.part_desc:
        return
    counts = case["part_counts"]
    m.part_counts = [counts[i % len(counts)] for i in range(m.ncpu)]
    m.part = []
    for k in range(m.ncpu):
        n = m.part_counts[k]
        cols = {}
        for name, t in m.part_desc:
            if t == "d":
                cols[name] = rng.uniform(-1, 1, size=n) * 10.0 ** rng.randint(-2, 3, size=n)
            elif t == "i":
                cols[name] = rng.randint(-2 ** 31, 2 ** 31 - 1, size=n).astype(np.int32) if case.get(
                    "part_wide_ints", True) else rng.randint(0, 1000, size=n).astype(np.int32)
            else:
                cols[name] = rng.randint(-128, 128, size=n).astype(np.int8)
        m.part.append(cols)
    m.part_header_lens = case.get("part_header_lens", [4, 4, 8, 8, 4])


def _build_sinks(m, case, rng):
    s = case.get("sink")
    m.sink = s
    if not s or s.get("mode") in ("missing", "empty"):
        return
    n = s["n"]
    m.sink_values = rng.uniform(-2, 2, size=(n, len(s["cols"]))) * 10.0 ** rng.randint(-2, 3, size=(n, len(s["cols"])))
    m.sink_values = np.array([[float(f"{v:.12e}") for v in row] for row in m.sink_values]).reshape(n, len(s["cols"]))


# ------------------------------------------------------------------ writer
def _rec(f, payload):
    f.write(struct.pack("<i", len(payload)))
    f.write(payload)
    f.write(struct.pack("<i", len(payload)))


def _ints(f, vals):
    _rec(f, np.asarray(vals, dtype="<i4").tobytes())


def _dbls(f, vals):
    _rec(f, np.asarray(vals, dtype="<f8").tobytes())


def fmt_key(k, style=None):
    if style == "e23.15":
        # what RAMSES itself prints (Fortran E23.15): fifteen significant digits, 0.ddddE+xx
        mant, ex = f"{float(k):.14E}".split("E")
        digits = mant.replace(".", "").replace("-", "")
        return "0.000000000000000E+00" if float(k) == 0 else f"0.{digits}E{int(ex) + 1:+03d}"
    return f"{float(k):.17E}" if k < 2 ** 53 else repr(float(k))


def write_output(m, path, nout=None, max_level_written=None):
    """Write output_NNNNN under path; returns the directory.
    max_level_written: the per-CPU amr / hydro / grav / rt files end after the records of that level (headers unchanged):
    a reader that stops at that level never notices, one that goes deeper runs off the end of the file."""
    case = m.case
    nout = case["nout"] if nout is None else nout
    num = str(nout).zfill(5)
    d = os.path.join(path, "output_" + num)
    os.makedirs(d, exist_ok=True)
    ndim, ncpu, L, B, T = m.ndim, m.ncpu, m.levelmax, m.nboundary, m.twotondim
    rng = m.rng_files
    # ---- info file
    with open(os.path.join(d, f"info_{num}.txt"), "w") as f:
        f.write(f"ncpu        = {ncpu:10d}\n")
        f.write(f"ndim        = {ndim:10d}\n")
        f.write(f"levelmin    = {m.levelmin:10d}\n")
        f.write(f"levelmax    = {L:10d}\n")
        f.write(f"ngridmax    = {100000:10d}\n")
        f.write(f"nstep_coarse= {case.get('nstep_coarse', 7):10d}\n\n")
        f.write(f"boxlen      =  {m.boxlen!r}\n")
        f.write(f"time        =  {m.time!r}\n")
        f.write("aexp        =  0.100000000000000E+01\n")
        f.write("H0          =  0.100000000000000E+01\n")
        f.write("omega_m     =  0.100000000000000E+01\n")
        f.write("omega_l     =  0.000000000000000E+00\n")
        f.write("omega_k     =  0.000000000000000E+00\n")
        f.write("omega_b     =  0.000000000000000E+00\n")
        f.write(f"unit_l      =  {m.ul!r}\n")
        f.write(f"unit_d      =  {m.ud!r}\n")
        f.write(f"unit_t      =  {m.ut!r}\n\n")
        f.write(f"ordering type={case['ordering']}\n")
        f.write("   DOMAIN   ind_min                 ind_max\n")
        for k in range(ncpu):
            f.write(f"{k + 1:8d}  {fmt_key(m.bound_key[k], case.get('key_format'))}  "
                    f"{fmt_key(m.bound_key[k + 1], case.get('key_format'))}\n")
    # ---- descriptors
    def write_desc(fname, names, types=None):
        with open(os.path.join(d, fname), "w") as f:
            f.write("# version:  1\n# ivar, variable_name, variable_type\n")
            for i, n in enumerate(names):
                f.write(f"  {i + 1}, {n}, {(types[i] if types else 'd')}\n")
    write_desc("hydro_file_descriptor.txt", m.hydro_vars)
    if m.rt_vars:
        write_desc("rt_file_descriptor.txt", m.rt_vars)
    if m.part_desc:
        write_desc("part_file_descriptor.txt", [x[0] for x in m.part_desc], [x[1] for x in m.part_desc])

    if case.get("coarse3"):
        # per-dimension choice: boundaries (and hence 3 coarse cells) in any subset of the dimensions
        flags = list(case["coarse3"][:ndim])
        if B > 0 and not any(flags):
            flags[0] = True
        nxyz = [3 if (B > 0 and flags[dd]) else 1 for dd in range(ndim)] + [1] * (3 - ndim)
    else:
        nxyz = [3 if (B > 0 and dd < case.get("boundary_dims", ndim)) else 1 for dd in range(ndim)] + [1] * (3 - ndim)
    m.nxyz = nxyz
    xbound = [float(int(n / 2)) for n in nxyz]
    ncoarse = nxyz[0] * nxyz[1] * nxyz[2]
    noutput = case["noutput"]
    ghost_p = case.get("ghost_p", 0.5)
    off = child_offsets(ndim)
    m.slot_counts = []
    m.n_ghost_octs = 0

    for k in range(ncpu):
        # slots[level][domain] -> list of (kind, oct index) ; kind: own / ghost / boundary
        slots = []
        for l in range(L):
            lv = m.levels[l]
            per = []
            for dom in range(ncpu + B):
                if dom == k:
                    idx = np.nonzero(lv.owner == k)[0]
                    idx = rng.permutation(idx)
                    per.append(("own", idx))
                elif dom < ncpu:
                    idx = np.nonzero(lv.owner == dom)[0]
                    keep = rng.random_sample(len(idx)) < ghost_p
                    idx = rng.permutation(idx[keep])
                    m.n_ghost_octs += len(idx)
                    per.append(("ghost", idx))
                else:
                    nb = int(rng.randint(0, 4)) if l < L else 0
                    per.append(("boundary", np.arange(nb)))
            slots.append(per)
        numbl = np.array([[len(slots[l][c][1]) for c in range(ncpu)] for l in range(L)], dtype=np.int32)  # [L, C]
        numbb = np.array([[len(slots[l][ncpu + b][1]) for b in range(B)] for l in range(L)], dtype=np.int32)  # [L, B]
        m.slot_counts.append((numbl, numbb))

        def files(ftype):
            return open(os.path.join(d, f"{ftype}_{num}.out{str(k + 1).zfill(5)}"), "wb")

        with files("amr") as f:
            _ints(f, [ncpu])
            _ints(f, [ndim])
            _ints(f, nxyz)
            _ints(f, [L])
            _ints(f, [100000])
            _ints(f, [B])
            _ints(f, [int(numbl.sum())])
            _dbls(f, [m.boxlen])
            _ints(f, [noutput, 1, 1])
            _dbls(f, np.linspace(0.0, 1.0, noutput))
            _dbls(f, np.ones(noutput))
            _dbls(f, [m.time])
            _dbls(f, np.full(L, 0.125))
            _dbls(f, np.full(L, 0.25))
            _ints(f, [7, 7])
            _dbls(f, [0.0, 1.0, 1.0])
            _dbls(f, [1.0, 0.0, 0.0, 0.0, 1.0, 1.0, m.boxlen])
            _dbls(f, [1.0, 0.0, 1.0, 0.0, 0.0])
            _dbls(f, [0.0])
            _ints(f, np.arange(ncpu * L) + 1)          # headl
            _ints(f, np.arange(ncpu * L) + 2)          # taill
            _ints(f, numbl.ravel())                    # numbl: cpu fastest
            _ints(f, np.zeros(10 * L))                 # numbtot
            if B > 0:
                _ints(f, np.zeros(B * L))              # headb
                _ints(f, np.zeros(B * L))              # tailb
                _ints(f, numbb.ravel())                # numbb: boundary fastest
            _ints(f, [1, 2, 3, 4, 5])                  # headf,tailf,numbf,used_mem,used_mem_tot
            _rec(f, case["ordering"].ljust(128).encode()[:128])
            if case["keysize"] == 8:
                _rec(f, np.asarray([float(x) for x in m.bound_key], dtype="<f8").tobytes())
            else:
                _rec(f, b"".join(struct.pack("<dd", float(x), 0.0) for x in m.bound_key))
            _ints(f, np.ones(ncoarse))                 # son
            _ints(f, np.zeros(ncoarse))                # flag1
            _ints(f, np.ones(ncoarse))                 # cpu_map
            for l in range(L if max_level_written is None else min(L, max_level_written)):
                lv = m.levels[l]
                for dom in range(ncpu + B):
                    kind, idx = slots[l][dom]
                    n = len(idx)
                    if n == 0:
                        continue
                    if kind == "boundary":
                        cen = rng.random_sample((n, ndim)) * 0.5 - 1.0   # outside the box
                        son = (rng.random_sample((n, T)) < 0.3).astype(np.int32) * 5
                    else:
                        cen = lv.centre[idx]
                        son = lv.refined[idx].astype(np.int64) * (np.arange(n)[:, None] * T + np.arange(T)[None, :] + 1)
                        if case.get("big_son", True):
                            # grid indices run up to ncoarse + ngridmax * 2**ndim in real outputs: use the int32 range
                            son = np.where(son > 0, son + (2 ** 31 - 1 - n * T - 2 if (l + dom) % 2 else 70000), 0)
                        son = son.astype(np.int32)
                    _ints(f, np.arange(n) + 1)          # ind_grid
                    _ints(f, np.arange(n) + 2)          # next
                    _ints(f, np.arange(n))              # prev
                    for dd in range(ndim):
                        _dbls(f, cen[:, dd] + xbound[dd])
                    _ints(f, np.arange(n) + 1)          # father
                    for _ in range(2 * ndim):
                        _ints(f, np.arange(n) + 1)      # nbor
                    for ind in range(T):
                        _ints(f, son[:, ind])
                    # cpu_map: per cell, the domain that holds the cell's own key (an oct lives with its father cell, so the
                    # cells of an oct that straddles a domain boundary name other domains than the one the oct is stored in)
                    cmap = np.full((n, T), dom + 1, dtype=np.int64)
                    if kind != "boundary" and case.get("cpu_map", "cell") == "cell" and ncpu > 1:
                        cc = cen[:, None, :] + child_offsets(ndim)[None, :, :] * 0.5 ** (l + 1)
                        ck = _father_keys(cc.reshape(-1, ndim), ndim, case["levelmax"])
                        nk = 1 << (ndim * (case["levelmax"] + 1))
                        own = np.searchsorted(np.asarray(m.bound_key[1:], dtype=object if nk > 2 ** 62 else np.int64), ck, side="right")
                        cmap = (np.clip(own.astype(np.int64), 0, ncpu - 1) + 1).reshape(n, T)
                    for ind in range(T):
                        _ints(f, cmap[:, ind])          # cpu_map
                    for ind in range(T):
                        _ints(f, np.zeros(n))           # flag1

        def write_cellfile(ftype, names, header):
            with files(ftype) as f:
                header(f)
                for l in range(L if max_level_written is None else min(L, max_level_written)):
                    lv = m.levels[l]
                    for dom in range(ncpu + B):
                        kind, idx = slots[l][dom]
                        n = len(idx)
                        _ints(f, [l + 1])
                        _ints(f, [n])
                        if n == 0:
                            continue
                        for ind in range(T):
                            for iv, v in enumerate(names):
                                if kind == "own":
                                    _dbls(f, lv.values[v][idx, ind])
                                else:
                                    _dbls(f, np.full(n, POISON) - (iv + 1) * 1e30 - ind * 1e29)

        def hydro_header(f):
            _ints(f, [ncpu])
            _ints(f, [len(m.hydro_vars)])
            _ints(f, [ndim])
            _ints(f, [L])
            _ints(f, [B])
            _dbls(f, [1.4])

        def grav_header(f):
            _ints(f, [ncpu])
            _ints(f, [ndim + 1])
            _ints(f, [L])
            _ints(f, [B])

        def rt_header(f):
            _ints(f, [ncpu])
            _ints(f, [len(m.rt_vars)])
            _ints(f, [ndim])
            _ints(f, [L])
            _ints(f, [B])
            _dbls(f, [1.4])

        write_cellfile("hydro", m.hydro_vars, hydro_header)
        if m.grav:
            write_cellfile("grav", m.grav_vars, grav_header)
        if m.rt_vars:
            write_cellfile("rt", m.rt_vars, rt_header)
        if m.part is not None:
            with files("part") as f:
                _ints(f, [ncpu])
                _ints(f, [ndim])
                _ints(f, [m.part_counts[k]])
                for hl in m.part_header_lens:
                    _rec(f, bytes((i * 37 + 11) % 251 for i in range(hl)))
                for name, t in m.part_desc:
                    _rec(f, np.asarray(m.part[k][name], dtype=np.dtype(PTYPES[t]).newbyteorder("<")).tobytes())
    # ---- sinks
    s = m.sink
    if s and s.get("mode") != "missing":
        fn = os.path.join(d, f"sink_{num}.csv")
        with open(fn, "w") as f:
            if s.get("mode") != "empty":
                f.write(" # " + ",".join(s["cols"]) + "\n")
                f.write(" # " + ",".join(s["units"]) + "\n")
                for row in m.sink_values:
                    f.write(",".join(f"{v:.12e}" for v in row) + "\n")
    return d


# ------------------------------------------------------------------ expected tables
def expected_mesh(m, lcap=None):
    """Columns of the expected mesh table from the model (physical cgs values), one row per leaf
    (or per cell of the tree truncated at level lcap).  'key' = integer lattice coordinates of the centre."""
    L = m.levelmax if lcap is None else lcap
    off = child_offsets(m.ndim)
    cols = {"level": [], "cpu": [], "dx": [], "box": []}
    for v in m.mesh_vars:
        cols[v] = []
    scale = m.boxlen * m.ul
    for l in range(1, L + 1):
        lv = m.levels[l - 1]
        if len(lv.centre) == 0:
            continue
        leaf = ~lv.refined if l < L else np.ones_like(lv.refined)
        oi, ci = np.nonzero(leaf)
        cen = lv.centre[oi] + off[ci] * 0.5 ** l
        cols["box"].append(cen)
        cols["level"].append(np.full(len(oi), l))
        cols["cpu"].append(lv.owner[oi] + 1)
        cols["dx"].append(np.full(len(oi), 0.5 ** l * scale))
        for v in m.mesh_vars:
            f, _ = var_factor(v, m.ud, m.ul, m.ut)
            cols[v].append(lv.values[v][oi, ci] * f)
    out = {}
    for k, parts in cols.items():
        if parts:
            out[k] = np.concatenate(parts)
        else:
            out[k] = np.zeros((0, m.ndim)) if k == "box" else np.zeros(0)
    out["position"] = out["box"] * scale
    bits = m.levelmax + 1
    out["lattice"] = np.round(out["box"] * (1 << bits)).astype(np.int64)
    return out


def lattice_id(lat, bits):
    """single integer id per lattice point"""
    lat = np.asarray(lat, dtype=np.int64)
    if (bits + 1) * lat.shape[1] > 62:
        # does not fit 64 bits (3-D, levelmax >= 20): exact python integers
        idv = np.zeros(len(lat), dtype=object)
        for d in range(lat.shape[1]):
            idv = idv * (1 << (bits + 1)) + lat[:, d].astype(object)
        return idv
    idv = np.zeros(len(lat), dtype=np.int64)
    for d in range(lat.shape[1]):
        idv = idv * (1 << (bits + 1)) + lat[:, d]
    return idv


def n_leaves(m):
    return sum(int((~lv.refined).sum()) for lv in m.levels)
