"""Search driver, evidence/replay writers and the known-findings protocol (DESIGN.md 2.2, 2.8, 2.9).

A check module exposes
    PROPERTY, RULE, ASSUMPTIONS (list), subs(ctx) -> list[Sub]
Every Sub has a *plain-data* case domain (JSON-able dict) and a function
    fn(case, r)   r: R  ->  calls r.bad(signature, detail) / r.nontrivial() / r.label(...)
so that shrinking, replay and regression files all work on the same representation.
"""
import hashlib
import json
import math
import os
import sys
import time
import traceback
import zlib
from collections import Counter

from . import env

LEVEL = "exploration"


class Violation(Exception):
    pass


class R:
    """Result collector for one case."""

    __slots__ = ("records", "is_nontrivial", "labels", "info")

    def __init__(self):
        self.records = []
        self.is_nontrivial = False
        self.labels = []
        self.info = {}

    def bad(self, signature, detail=""):
        sig = [str(s) for s in signature]
        self.records.append({"signature": sig, "detail": str(detail)[:800]})

    def nontrivial(self, flag=True):
        if flag:
            self.is_nontrivial = True

    def label(self, *labels):
        self.labels.extend(str(x) for x in labels)


class Sub:
    def __init__(self, name, fn, strategy=None, cases=None, quick=100, thorough=1000,
                 shard=True, budget_s=None, required=None, shrink=True, describe=None):
        self.name = name
        self.fn = fn
        self.strategy = strategy      # hypothesis strategy of plain-data cases
        self.cases = cases            # or: finite iterable (exhaustive enumeration)
        self.quick = quick
        self.thorough = thorough      # per shard
        self.shard = shard            # False: run only in shard 0 (e.g. schedule checks using all cores)
        self.budget_s = budget_s
        self.required = required or {}   # label -> minimal fraction of evaluations (generator health)
        self.shrink = shrink
        self.describe = describe


def _jsonable(o):
    import numpy as np

    if isinstance(o, dict):
        return {str(k): _jsonable(v) for k, v in o.items()}
    if isinstance(o, (list, tuple)):
        return [_jsonable(v) for v in o]
    if isinstance(o, (np.integer,)):
        return int(o)
    if isinstance(o, (np.floating,)):
        return float(o)
    if isinstance(o, (np.bool_,)):
        return bool(o)
    if isinstance(o, np.ndarray):
        return _jsonable(o.tolist())
    if isinstance(o, (bytes, bytearray)):
        return o.hex()
    if isinstance(o, complex):
        return [o.real, o.imag]
    return o


def canonical(case):
    return json.dumps(_jsonable(case), sort_keys=True, default=repr)


def case_hash(case):
    return hashlib.sha1(canonical(case).encode()).hexdigest()[:14]


def shorten(o, maxlen=10, depth=0):
    """Truncate long lists so that samples in the evidence stay readable."""
    if isinstance(o, dict):
        return {k: shorten(v, maxlen, depth + 1) for k, v in o.items()}
    if isinstance(o, (list, tuple)):
        if len(o) > maxlen:
            return [shorten(v, maxlen, depth + 1) for v in o[:maxlen]] + [f"...({len(o)} items)"]
        return [shorten(v, maxlen, depth + 1) for v in o]
    if isinstance(o, float) and (math.isnan(o) or math.isinf(o)):
        return repr(o)
    if isinstance(o, str) and len(o) > 300:
        return o[:300] + "..."
    return o


class Findings:
    def __init__(self, prop):
        path = os.path.join(env.VERIF_ROOT, "known_findings.json")
        self.findings = []
        if os.path.exists(path):
            with open(path) as f:
                data = json.load(f)
            self.findings = [x for x in data.get("findings", []) if x["property"] == prop]

    def match(self, signature):
        for f in self.findings:
            s = [str(x) for x in f["signature"]]
            if signature[: len(s)] == s:
                return f
        return None


class Ctx:
    def __init__(self, prop, tier, seed, shard=0, nshards=1):
        self.prop = prop
        self.tier = tier
        self.seed = seed
        self.shard = shard
        self.nshards = nshards
        self.t0 = time.time()
        self.counters = Counter()
        self.labels = Counter()
        self.sub_evals = Counter()
        self.sub_labels = {}
        self.nontrivial = set()
        self.samples = {}
        self.violations = []          # unlisted, one per (sub, signature)
        self.known_hits = {}
        self.reported = set()         # signatures already reported this run (exclusion by construction)
        self.findings = Findings(prop)
        self.notes = []
        self.exhaustive = {}
        self.harness_errors = []

    # ------------------------------------------------------------------
    def derived_seed(self, *parts):
        s = "|".join(str(p) for p in (self.seed, self.shard) + parts)
        return zlib.crc32(s.encode()) & 0x7FFFFFFF

    def n_examples(self, sub):
        return sub.quick if self.tier == "quick" else sub.thorough

    # ------------------------------------------------------------------
    def run_case(self, sub, case):
        """Run one case; returns list of unlisted violation records."""
        r = R()
        try:
            sub.fn(case, r)
        except (MemoryError, RecursionError):
            raise
        except Exception as e:
            # An exception the check did not anticipate.  If it passed through a frame of the code under test, osyris
            # refused or crashed on a call that the check (quiet on the pinned tree) expects to succeed: that is a
            # violation of the property being exercised, not a harness error.  Exceptions raised by the check's own
            # code stay harness errors.
            import traceback
            src = env.osyris_src() + os.sep
            frames = traceback.extract_tb(e.__traceback__)
            inside = [f for f in frames if os.path.abspath(f.filename).startswith(src)]
            if not inside:
                raise
            last = inside[-1]
            r.bad(["uncaught-exception", type(e).__name__, f"{os.path.basename(last.filename)}:{last.name}"],
                  f"{e!r} raised through {last.filename}:{last.lineno} ({last.name}); the check expects this call to succeed")
        self.counters["evaluations"] += 1
        self.sub_evals[sub.name] += 1
        sl = self.sub_labels.setdefault(sub.name, Counter())
        for lab in set(r.labels):
            self.labels[f"{sub.name}:{lab}"] += 1
            sl[lab] += 1
        if r.is_nontrivial:
            h = sub.name + ":" + case_hash(case)
            if h not in self.nontrivial:
                self.nontrivial.add(h)
                smp = self.samples.setdefault(sub.name, [])
                if len(smp) < 2:
                    smp.append(shorten(_jsonable(case)))
        unlisted = []
        for rec in r.records:
            sig = rec["signature"]
            f = self.findings.match(sig)
            if f is not None:
                key = json.dumps(f["signature"])
                if key not in self.known_hits:
                    self.known_hits[key] = {"what": f["what"], "count": 0, "example": rec["detail"]}
                self.known_hits[key]["count"] += 1
                self.counters["excluded_known"] += 1
                continue
            if (sub.name, tuple(sig)) in self.reported:
                self.counters["excluded_already_reported"] += 1
                continue
            unlisted.append(rec)
        return unlisted

    # ------------------------------------------------------------------
    def write_replay(self, sub, case, records):
        d = os.path.join(env.VERIF_ROOT, "replays", self.prop)
        os.makedirs(d, exist_ok=True)
        h = case_hash({"case": case, "sig": records[0]["signature"]})
        rel = os.path.join("replays", self.prop, f"{sub.name}-{h}.json")
        with open(os.path.join(env.VERIF_ROOT, rel), "w") as f:
            json.dump({"property": self.prop, "sub": sub.name, "case": _jsonable(case),
                       "records": records, "seed": self.seed, "tier": self.tier}, f, indent=1, default=repr)
        return rel

    def add_violation(self, sub, case, records):
        rel = self.write_replay(sub, case, records)
        for rec in records[:1]:
            self.violations.append({"sub": sub.name, "signature": rec["signature"],
                                    "detail": rec["detail"], "replay": rel})
            self.reported.add((sub.name, tuple(rec["signature"])))
        return rel

    # ------------------------------------------------------------------
    def search(self, sub, max_rounds=4):
        if not sub.shard and self.shard != 0:
            return
        if sub.cases is not None:
            return self._enumerate(sub)
        import hypothesis
        from hypothesis import HealthCheck, Phase, given, settings

        n = self.n_examples(sub)
        if n <= 0:
            return
        t_start = time.time()
        # Hypothesis correlates the examples of one run (prefix reuse, mutation of earlier examples), so the share of
        # a class drawn early in a composite strategy varies wildly between seeds (1 to 76 of 150 for a class of
        # probability 0.2).  The budget is therefore spent in independent batches of about 25 examples, each with its own
        # derived seed; a batch that ends in a violation is followed by the next one with that signature excluded.
        nb = max(1, int(round(n / 25.0)))
        per = [n // nb + (1 if i < n % nb else 0) for i in range(nb)]
        found = 0
        for rnd in range(nb):
            if found >= max_rounds:
                break
            n = per[rnd]
            last = {}
            phases = [Phase.generate, Phase.shrink] if sub.shrink else [Phase.generate]

            shrink_budget = 15.0 if self.tier == "quick" else 60.0

            def make_body(_sub, _last, _t):
                def body(case):
                    if _sub.budget_s and time.time() - _t > _sub.budget_s and not _last.get("failing"):
                        self.counters["skipped_budget"] += 1
                        return
                    if _last.get("failing") and time.time() - _last["t_first"] > shrink_budget:
                        # shrink budget used up (Hypothesis' own cap is 5 minutes): only the best failing
                        # case found so far still fails, so the shrinker stops and the final replay reproduces
                        if canonical(case) != _last["canon"]:
                            self.counters["shrink_budget_skips"] += 1
                            return
                    bad = self.run_case(_sub, case)
                    if bad:
                        if not _last.get("failing"):
                            _last["t_first"] = time.time()
                        _last["case"] = case
                        _last["canon"] = canonical(case)
                        _last["records"] = bad
                        _last["failing"] = True
                        raise Violation(bad[0]["signature"])
                return body

            test = given(sub.strategy)(make_body(sub, last, t_start))
            test = settings(max_examples=n, database=None, deadline=None, derandomize=False,
                            report_multiple_bugs=False, phases=phases,
                            suppress_health_check=list(HealthCheck), print_blob=False)(test)
            test = hypothesis.seed(self.derived_seed(sub.name, rnd))(test)
            try:
                test()
                continue
            except Violation:
                self.add_violation(sub, last["case"], last["records"])
                found += 1
                # exclusion by construction: keep searching behind this signature
                continue
            except Exception as e:
                # Hypothesis reports a failure that does not reproduce on replay as Flaky: the code under test is
                # non-deterministic (e.g. a data race).  The recorded failing execution is a violation all the same.
                if type(e).__name__ in ("Flaky", "FlakyFailure", "FlakyReplay") and last.get("failing"):
                    for rec in last["records"]:
                        rec["detail"] = "[did not reproduce on immediate replay: non-deterministic] " + rec["detail"]
                    self.add_violation(sub, last["case"], last["records"])
                    found += 1
                    continue
                raise
        self._health(sub)

    def _enumerate(self, sub):
        n = 0
        for case in sub.cases:
            n += 1
            bad = self.run_case(sub, case)
            if bad:
                self.add_violation(sub, case, bad)
        self.exhaustive[sub.name] = n
        self._health(sub)

    def _health(self, sub):
        n = self.sub_evals[sub.name]
        if not n or self.tier != "quick" and self.nshards > 1:
            # in sharded runs the parent checks health on merged counts
            pass
        if not n:
            return
        sl = self.sub_labels.get(sub.name, Counter())
        for lab, frac in sub.required.items():
            if any(v["sub"] == sub.name for v in self.violations):
                continue
            # `frac` is the target share of the class; the share varies with the seed, so only a class that falls
            # below a third of its target (a dead generator) is a harness error, a mere shortfall is noted
            if sl[lab] < frac * n / 3.0:
                self.harness_errors.append(
                    f"generator health: sub {sub.name} label {lab!r} {sl[lab]}/{n} < {frac}/3")
            elif sl[lab] < frac * n:
                self.notes.append(f"generator note: sub {sub.name} label {lab!r} {sl[lab]}/{n} below its target {frac}")

    # ------------------------------------------------------------------
    def replay_file(self, module, path):
        with open(path) as f:
            data = json.load(f)
        subs = {s.name: s for s in module.subs(self)}
        sub = subs[data["sub"]]
        r = R()
        sub.fn(data["case"], r)
        return sub, data["case"], r

    def run_regress(self, module):
        d = os.path.join(env.VERIF_ROOT, "regress", self.prop)
        if not os.path.isdir(d) or self.shard != 0:
            return
        subs = {s.name: s for s in module.subs(self)}
        for fn in sorted(os.listdir(d)):
            if not fn.endswith(".json"):
                continue
            with open(os.path.join(d, fn)) as f:
                data = json.load(f)
            sub = subs.get(data["sub"])
            if sub is None:
                self.harness_errors.append(f"regress file {fn}: unknown sub {data['sub']}")
                continue
            bad = self.run_case(sub, data["case"])
            self.counters["regress_replayed"] += 1
            if bad:
                self.add_violation(sub, data["case"], bad)

    # ------------------------------------------------------------------
    def partial(self):
        return {
            "counters": dict(self.counters), "labels": dict(self.labels),
            "sub_evals": dict(self.sub_evals),
            "nontrivial": sorted(self.nontrivial), "samples": self.samples,
            "violations": self.violations, "known_hits": self.known_hits,
            "notes": self.notes, "exhaustive": self.exhaustive,
            "harness_errors": self.harness_errors, "wall_s": time.time() - self.t0,
        }


def merge_partials(parts):
    out = {"counters": Counter(), "labels": Counter(), "sub_evals": Counter(), "nontrivial": set(),
           "samples": {}, "violations": [], "known_hits": {}, "notes": [], "exhaustive": {},
           "harness_errors": []}
    seen = set()
    for p in parts:
        out["counters"].update(p["counters"])
        out["labels"].update(p["labels"])
        out["sub_evals"].update(p["sub_evals"])
        out["nontrivial"].update(p["nontrivial"])
        for k, v in p["samples"].items():
            cur = out["samples"].setdefault(k, [])
            for s in v:
                if len(cur) < 2:
                    cur.append(s)
        for v in p["violations"]:
            key = (v["sub"], tuple(v["signature"]))
            if key not in seen:
                seen.add(key)
                out["violations"].append(v)
        for k, v in p["known_hits"].items():
            if k in out["known_hits"]:
                out["known_hits"][k]["count"] += v["count"]
            else:
                out["known_hits"][k] = dict(v)
        out["notes"].extend(x for x in p["notes"] if x not in out["notes"])
        out["exhaustive"].update(p["exhaustive"])
        out["harness_errors"].extend(p["harness_errors"])
    return out


def write_evidence(prop, module, tier, seed, merged, wall_s, nshards):
    d = os.environ.get("VERIF_EVIDENCE_DIR") or os.path.join(env.VERIF_ROOT, "evidence")
    os.makedirs(d, exist_ok=True)
    samples = []
    for sub, lst in merged["samples"].items():
        for s in lst:
            samples.append({"sub": sub, "case": s})
    if not samples:
        samples = [{"note": "no non-trivial case was generated"}]
    cov = {
        "evaluations": int(merged["counters"].get("evaluations", 0)),
        "distinct_nontrivial": len(merged["nontrivial"]),
        "rule": module.RULE,
        "samples": samples,
        "per_sub_evaluations": dict(merged["sub_evals"]),
        "class_histogram": dict(sorted(merged["labels"].items())),
        "excluded_known": int(merged["counters"].get("excluded_known", 0)),
        "excluded_already_reported": int(merged["counters"].get("excluded_already_reported", 0)),
        "skipped_budget": int(merged["counters"].get("skipped_budget", 0)),
        "regress_replayed": int(merged["counters"].get("regress_replayed", 0)),
        "exhaustive_subspaces": merged["exhaustive"],
        "known_findings_met": merged["known_hits"],
        "violations_found": merged["violations"],
        "workers": nshards,
        "notes": merged["notes"],
        "osyris_src": env.osyris_src(),
    }
    if merged["exhaustive"] and all(s in merged["exhaustive"] for s in merged["sub_evals"]):
        cov["exhaustive"] = True
    ev = {
        "property_id": prop, "tier": tier, "seed": int(seed), "level": LEVEL,
        "coverage": cov, "assumptions": list(getattr(module, "ASSUMPTIONS", [])),
        "wall_s": round(wall_s, 2), "violations": len(merged["violations"]),
    }
    path = os.path.join(d, f"{prop}.json")
    with open(path, "w") as f:
        json.dump(ev, f, indent=1, default=repr)
    return path
