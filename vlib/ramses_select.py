"""Selection predicates for RamsesDataset.load(select=...) as plain data, with an osyris-side builder and a
numpy-side evaluator on the model's expected table (used by C04, C12, C15)."""
import math

import numpy as np
from hypothesis import strategies as st

from . import ramses_model as rm


# ------------------------------------------------------------------ strategies
@st.composite
def level_preds(draw, levelmax):
    t = draw(st.sampled_from(["le", "le", "lt", "eq", "band", "ge", "ne", "set"]))
    as_int = draw(st.sampled_from([False, False, False, True]))      # the predicate returns a 0/1 mask instead of booleans
    if t == "ne":
        return {"t": t, "k": draw(st.integers(1, levelmax)), "as_int": as_int}
    if t == "set":
        return {"t": t, "ks": sorted(draw(st.lists(st.integers(1, levelmax), min_size=1, max_size=3, unique=True))),
                "as_int": as_int}
    if t == "band":
        a = draw(st.integers(0, max(levelmax - 1, 0)))
        b = draw(st.integers(a + 2, levelmax + 2))
        return {"t": t, "a": a, "b": b, "as_int": as_int}
    if t == "lt":
        return {"t": t, "k": draw(st.integers(2, levelmax + 1)), "as_int": as_int}
    return {"t": t, "k": draw(st.integers(1, levelmax)), "as_int": as_int}


def level_accepts(p, l):
    """numpy / python evaluation"""
    t = p["t"]
    if t == "le":
        return l <= p["k"]
    if t == "lt":
        return l < p["k"]
    if t == "eq":
        return l == p["k"]
    if t == "ge":
        return l >= p["k"]
    if t == "ne":
        return l != p["k"]
    if t == "set":
        out = (l == p["ks"][0])
        for k in p["ks"][1:]:
            out = out | (l == k)
        return out
    return (l > p["a"]) & (l < p["b"])


def level_cap(p, levelmax):
    ls = np.arange(1, levelmax + 1)
    acc = ls[np.asarray(level_accepts(p, ls))]
    return int(acc.max()) if len(acc) else None


@st.composite
def frac_endpoint(draw):
    return draw(st.one_of(st.floats(0.05, 0.45), st.floats(0.55, 0.95)))


@st.composite
def pos_preds(draw, ndim, levelmax, around_leaf=None):
    """Interval predicates on a subset of axes.  Two forms:
    {"form":"abs", "axes": {"x": [k_lo, f_lo, k_hi, f_hi]}}   endpoints (k+f) 2^-levelmax
    {"form":"leaf", "leaf": frac, "axes": "xz", "rel": width relative to the leaf size, "shift": [..], "edge": bool}
    """
    axes = draw(st.lists(st.sampled_from(list("xyz"[:ndim])), min_size=1, max_size=ndim, unique=True))
    form = around_leaf if around_leaf is not None else draw(st.sampled_from(["abs", "leaf", "leaf"]))
    n = 1 << levelmax
    if form == "abs":
        out = {}
        for a in axes:
            klo = draw(st.integers(-1, n - 1))
            khi = draw(st.integers(max(klo, 0), n))
            flo, fhi = draw(frac_endpoint()), draw(frac_endpoint())
            if khi == klo:
                # must contain the finest centre at k+0.5
                flo, fhi = min(flo, 0.45), max(fhi, 0.55)
            out[a] = [klo, flo, khi, fhi]
        return {"form": "abs", "axes": out}
    return {"form": "leaf", "leaf": draw(st.floats(0, 0.999)), "axes": "".join(sorted(axes)),
            "rel": draw(st.sampled_from([0.02, 0.1, 0.3, 0.6, 0.9, 1.5, 3.0, 8.0])),
            "shift": [draw(st.floats(-0.4, 0.4)) for _ in axes],
            # centred: shifts are relative to the width of the box, so the chosen leaf's centre is always selected
            "centred": draw(st.integers(0, 2)) > 0,
            "by_size": draw(st.booleans()), "edge": draw(st.integers(0, 6)) == 0,
            # at 20%: the leaf nearest to one of the 2^ndim domain corners (first / last cubes of the curve)
            "corner": draw(st.sampled_from([None, None, None, None, 1, 1, 0, 2, 3, 4, 5, 6, 7]))}


@st.composite
def value_preds(draw, mesh_vars):
    cands = [v for v in mesh_vars if not v.startswith("B_") and not v.startswith("photon_flux")]
    if not cands:
        return None
    return {"var": draw(st.sampled_from(cands)), "op": draw(st.sampled_from([">", "<"])), "qf": draw(st.floats(0.05, 0.95))}


# ------------------------------------------------------------------ resolving against a model
def resolve(spec, m, exp, cand=None):
    """Turn the plain spec into concrete numbers: {"level": p, "pos": {axis: (lo, hi) box coords}, "val": (var, op, q_cgs)}
    cand: row indices of exp among which the leaf of a leaf-form box is chosen (default: all rows)"""
    out = {"level": spec.get("level"), "pos": {}, "val": None, "dx": None}
    if spec.get("dx"):
        # a cell-size criterion between the sizes of two consecutive levels (box units): dx > 0.75 2^-k accepts levels <= k,
        # dx < 1.5 2^-k accepts levels >= k
        d = spec["dx"]
        out["dx"] = (d["op"], (0.75 if d["op"] == ">" else 1.5) * 0.5 ** d["k"])
    L = m.levelmax
    h = 0.5 ** L
    p = spec.get("pos")
    if p:
        if p["form"] == "abs":
            for a, (klo, flo, khi, fhi) in p["axes"].items():
                out["pos"][a] = _ensure_centre((klo + flo) * h, (khi + fhi) * h, h)
        else:
            n = len(exp["level"])
            if n:
                if p.get("by_size"):
                    # weight coarse leaves: pick by cumulative cell volume
                    w = np.cumsum(0.5 ** (exp["level"] * m.ndim))
                    i = int(np.searchsorted(w, p["leaf"] * w[-1]))
                else:
                    i = int(p["leaf"] * n)
                i = min(i, n - 1)
                if cand is not None and len(cand):
                    i = int(cand[min(int(p["leaf"] * len(cand)), len(cand) - 1)])
                if p.get("corner") is not None and cand is None:
                    corner = np.array([(p["corner"] >> k) & 1 for k in range(m.ndim)], dtype=float)
                    i = int(np.argmin(np.sum((exp["box"] - corner[None, :]) ** 2, axis=1)))
                cen = exp["box"][i]
                size = 0.5 ** exp["level"][i]
                out["leaf"] = {"index": i, "level": int(exp["level"][i]), "centre": cen.tolist()}
                for j, a in enumerate(p["axes"]):
                    d = "xyz".index(a)
                    c = cen[d] + p["shift"][j] * size * (p["rel"] if p.get("centred") else 1.0)
                    half = 0.5 * p["rel"] * size
                    lo, hi = c - half, c + half
                    if p.get("edge"):
                        lo = -0.3 * h if j % 2 == 0 else lo
                        hi = 1.0 + 0.3 * h if j % 2 == 1 else hi
                    out["pos"][a] = _snap_interval(lo, hi, h)
    v = spec.get("val")
    if v and v["var"] in exp and len(exp[v["var"]]):
        vals = exp[v["var"]]
        if spec.get("val_from_window") and out["pos"]:
            inside = np.ones(len(vals), dtype=bool)
            for a, (lo, hi) in out["pos"].items():
                x = exp["box"][:, "xyz".index(a)]
                inside &= (x > lo) & (x < hi)
            if inside.sum() >= 2:
                vals = vals[inside]
        vals = np.unique(vals)
        i = min(int(v["qf"] * len(vals)), len(vals) - 1)
        if len(vals) > 1:
            i = max(i, 1)
            q = 0.5 * (vals[i - 1] + vals[i])
        else:
            q = vals[0] * 0.5 if vals[0] != 0 else -1.0
        out["val"] = (v["var"], v["op"], float(q))
    return out


def _ensure_centre(lo, hi, h):
    """Make sure (lo, hi) holds at least one finest-level centre (k+0.5) h inside the domain."""
    k = math.floor(lo / h)
    first = (k + 0.5) * h if (k + 0.5) * h > lo else (k + 1.5) * h
    if first >= hi:
        hi = first + 0.25 * h
    if hi <= 0.5 * h:
        hi = 0.75 * h
    if lo >= 1 - 0.5 * h:
        lo = 1 - 0.75 * h
    return (lo, hi)


def _snap_interval(lo, hi, h):
    """Move endpoints to (k+f) h with f in {0.25, 0.75} so that no cell centre of any level is within rounding of an
    endpoint, and make sure the interval holds at least one finest-level centre (k+0.5) h."""
    def snap(x, up):
        k = math.floor(x / h)
        f = x / h - k
        f = 0.25 if f < 0.5 else 0.75
        return (k + f) * h
    lo2, hi2 = snap(lo, False), snap(hi, True)
    if hi2 <= lo2:
        hi2 = lo2 + 0.5 * h
    # at least one finest centre inside: centres at (k+0.5)h
    k = math.floor(lo2 / h)
    first = (k + 0.5) * h if (k + 0.5) * h > lo2 else (k + 1.5) * h
    if first >= hi2:
        hi2 = first + 0.25 * h
    # keep at least one centre inside the domain
    if hi2 <= 0.5 * h:
        hi2 = 0.75 * h
    if lo2 >= 1 - 0.5 * h:
        lo2 = 1 - 0.75 * h
    return (lo2, hi2)


def mask(res, m, exp):
    """numpy evaluation of the resolved predicates on the expected table."""
    ok = np.ones(len(exp["level"]), dtype=bool)
    if res["level"]:
        ok &= np.asarray(level_accepts(res["level"], exp["level"]))
    for a, (lo, hi) in res["pos"].items():
        d = "xyz".index(a)
        x = exp["box"][:, d]
        ok &= (x > lo) & (x < hi)
    if res["val"]:
        var, op, q = res["val"]
        ok &= (exp[var] > q) if op == ">" else (exp[var] < q)
    if res.get("dx"):
        op, t = res["dx"]
        size = 0.5 ** np.asarray(exp["level"], dtype=np.float64)
        ok &= (size > t) if op == ">" else (size < t)
    return ok


def build_select(osyris, res, m):
    """osyris-side predicates, written the documented way (unit-aware comparisons returning Arrays)."""
    sel = {}
    if res["level"]:
        p = res["level"]
        if p.get("as_int"):
            sel["level"] = lambda l, p=p: level_accepts(p, l) * 1
        else:
            sel["level"] = lambda l, p=p: level_accepts(p, l)
    scale = m.boxlen * m.ul
    for a, (lo, hi) in res["pos"].items():
        lo_a = osyris.Array(values=lo * scale, unit="cm")
        hi_a = osyris.Array(values=hi * scale, unit="cm")
        sel[f"position_{a}"] = lambda x, lo_a=lo_a, hi_a=hi_a: (x > lo_a) & (x < hi_a)
    if res.get("dx"):
        op, t = res["dx"]
        ta = osyris.Array(values=t * scale, unit="cm")
        sel["dx"] = (lambda d, ta=ta: d > ta) if op == ">" else (lambda d, ta=ta: d < ta)
    if res["val"]:
        var, op, q = res["val"]
        f, dims = rm.var_factor(var, m.ud, m.ul, m.ut)
        unit = "cm**{}*g**{}*s**{}*K**{}".format(*[float(x) for x in dims])
        qa = osyris.Array(values=q, unit=unit)
        sel[var] = (lambda v, qa=qa: v > qa) if op == ">" else (lambda v, qa=qa: v < qa)
    return sel


def filter_exp(exp, keep):
    return {k: (v[keep] if hasattr(v, "__len__") and len(v) == len(keep) else v) for k, v in exp.items()}
