"""Plain-data specs of osyris objects + Hypothesis strategies producing them (DESIGN.md 2.3).

spec of an Array : {"k":"A", "dtype":"float64", "shape":[n,m], "vals":[flat list], "unit":"m"}
spec of a Vector : {"k":"V", "comps":[specA, specA, ...]}   (1-3 comps, same shape/unit/dtype)
spec of a number : {"k":"num", "v": 2.5} / {"k":"npf", "v": 2.5} (np.float64)
spec of ndarray  : {"k":"nd", "dtype":..., "shape":..., "vals":...}
spec of Quantity : {"k":"Q", "dtype":..., "shape":..., "vals":..., "unit":...}
"""
import math

import numpy as np
from hypothesis import strategies as st

from . import unitmodel as um

DTYPES = ["float64", "float32", "int64", "int32"]
SPECIALS = {"nan": float("nan"), "inf": float("inf"), "-inf": float("-inf")}


def decode_vals(vals):
    return [SPECIALS[v] if isinstance(v, str) else v for v in vals]


def np_values(spec):
    shape = tuple(spec["shape"])
    if str(spec["dtype"]).startswith("complex"):
        return np.array([complex(v[0], v[1]) for v in spec["vals"]], dtype=np.dtype(spec["dtype"])).reshape(shape)
    a = np.array(decode_vals(spec["vals"]), dtype=np.dtype(spec["dtype"]))
    return a.reshape(shape)


def build(spec, osyris):
    k = spec["k"]
    if k == "A":
        return osyris.Array(values=np_values(spec), unit=spec["unit"], name=spec.get("name", ""))
    if k == "V":
        comps = [osyris.Array(values=np_values(c), unit=c["unit"]) for c in spec["comps"]]
        return osyris.Vector(*comps, name=spec.get("name", ""))
    if k == "num":
        if spec.get("as") == "fraction":
            from fractions import Fraction
            return Fraction(spec["v"])                 # exact numbers that numpy can only hold as objects
        if spec.get("as") == "decimal":
            from decimal import Decimal
            return Decimal(spec["v"])
        return spec["v"]
    if k == "npf":
        # a numpy scalar: np.float64 (a python float subclass) unless another scalar type is named
        return np.dtype(spec.get("dt", "float64")).type(spec["v"])
    if k == "nd":
        return np_values(spec)
    if k == "Q":
        if spec.get("pyscalar") and not spec["shape"]:
            # a Quantity whose magnitude is a plain python number
            return np_values(spec).item() * osyris.units(spec["unit"])
        return np_values(spec) * osyris.units(spec["unit"])
    raise ValueError(k)


def model_of(spec):
    """-> (float64 values (or list per component), unit model) of a spec; numbers/ndarrays dimensionless."""
    k = spec["k"]
    if k in ("A", "Q"):
        v = np_values(spec)
        return (v if np.iscomplexobj(v) else v.astype(np.float64)), um.parse(spec["unit"])
    if k == "V":
        return [np_values(c).astype(np.float64) for c in spec["comps"]], um.parse(spec["comps"][0]["unit"])
    if k == "num":
        return np.float64(spec["v"]), um.ONE
    if k == "npf":
        return np.float64(np.dtype(spec.get("dt", "float64")).type(spec["v"])), um.ONE
    if k == "nd":
        return np_values(spec).astype(np.float64), um.ONE
    raise ValueError(k)


# ------------------------------------------------------------------ strategies
@st.composite
def magnitudes(draw, dtype, n, specials=False, allow_zero=True, lo=-3, hi=3, positive=False, int_hi=1000):
    """n numbers with |x| in {0} u 10^[lo,hi]; integer-valued (1..int_hi) for int dtypes."""
    if dtype.startswith("complex"):
        re = draw(magnitudes("float64", n, allow_zero=allow_zero, lo=lo, hi=hi, positive=positive))
        im = draw(magnitudes("float64", n, allow_zero=True, lo=lo, hi=hi))
        return [[a, b] for a, b in zip(re, im)]
    out = []
    isint = dtype.startswith("int")
    for _ in range(n):
        kind = draw(st.integers(0, 19))
        if specials and dtype == "float64" and kind == 0:
            out.append(draw(st.sampled_from(["nan", "inf", "-inf"])))
            continue
        if allow_zero and kind == 1:
            out.append(0 if isint else 0.0)
            continue
        if isint:
            v = draw(st.integers(1, int_hi))
        else:
            e = draw(st.floats(lo, hi))
            v = float(np.dtype(dtype).type(10.0 ** e))
            if draw(st.booleans()):
                # "nice" values are more likely to produce exact ties
                v = float(np.dtype(dtype).type(round(v, 2) or 1.0))
        if not positive and draw(st.booleans()):
            v = -v
        out.append(v)
    return out


shapes = st.one_of(
    st.just([]),
    st.integers(1, 6).map(lambda n: [n]),
    st.tuples(st.integers(1, 4), st.integers(1, 4)).map(list),
)


def nelem(shape):
    n = 1
    for s in shape:
        n *= s
    return n


@st.composite
def array_specs(draw, units=None, dtypes=DTYPES, shape=None, specials=False, positive=False,
                allow_zero=True, kind="A", lo=-3, hi=3, int_hi=1000):
    dtype = draw(st.sampled_from(dtypes))
    shp = draw(shapes) if shape is None else list(shape)
    unit = draw(st.sampled_from(units if units is not None else um.ALL_UNITS))
    vals = draw(magnitudes(dtype, nelem(shp), specials=specials, positive=positive,
                           allow_zero=allow_zero, lo=lo, hi=hi, int_hi=int_hi))
    spec = {"k": kind, "dtype": dtype, "shape": shp, "vals": vals}
    if kind in ("A", "Q"):
        spec["unit"] = unit
    return spec


@st.composite
def vector_specs(draw, units=None, dtypes=DTYPES, shape=None, nvec=None, mixed_dtypes=False, **kw):
    """mixed_dtypes: the components of one Vector may be stored with different dtypes (Vector(int Array, float Array))"""
    nv = draw(st.integers(1, 3)) if nvec is None else nvec
    first = draw(array_specs(units=units, dtypes=dtypes, shape=shape, **kw))
    comps = [first]
    for _ in range(nv - 1):
        dts = DTYPES if (mixed_dtypes and draw(st.booleans())) else [first["dtype"]]
        c = draw(array_specs(units=[first["unit"]], dtypes=dts, shape=first["shape"], **kw))
        comps.append(c)
    return {"k": "V", "comps": comps}


def broadcast_shape(s1, s2):
    try:
        return list(np.broadcast_shapes(tuple(s1), tuple(s2)))
    except ValueError:
        return None


@st.composite
def shape_pairs(draw):
    """Two shapes that broadcast together (equal, or one of the numpy broadcast patterns)."""
    kind = draw(st.integers(0, 5))
    n = draw(st.integers(1, 5))
    m = draw(st.integers(1, 4))
    if kind == 0:
        return [], []
    if kind == 1:
        return [n], [n]
    if kind == 2:
        return [n, m], [n, m]
    if kind == 3:
        return [n, 1], [1, m]
    if kind == 4:
        return [m], [n, m]
    # (a one-element operand with more dimensions than the other one still shapes the result)
    s = draw(st.sampled_from([([n], []), ([], [n]), ([n, m], []), ([n, m], [m]), ([1], [n]), ([1, 1], [n]), ([n], [1, 1]),
                              ([1, 1, 1], [n, m])]))
    return list(s[0]), list(s[1])


FAMS = list(um.FAMILIES)


@st.composite
def unit_pairs(draw, relation=None, families=None):
    """-> (unit_a, unit_b, relation) with relation in same / compat / incompat."""
    fams = families or FAMS
    rel = relation or draw(st.sampled_from(["same", "compat", "compat", "incompat"]))
    fa = draw(st.sampled_from(fams))
    ua = draw(st.sampled_from(um.FAMILIES[fa]))
    if rel == "same":
        return ua, ua, rel
    if rel == "compat":
        others = [u for u in um.FAMILIES[fa] if u != ua]
        if not others:
            return ua, ua, "same"
        return ua, draw(st.sampled_from(others)), rel
    fb = draw(st.sampled_from([f for f in FAMS if f != fa]))
    return ua, draw(st.sampled_from(um.FAMILIES[fb])), rel
