"""Independent reference model of dimensional analysis (DESIGN.md 2.3).  Does not import pint.

A unit is (factor_to_cgs: float, dims: tuple of 4 Fractions over (length, mass, time, temperature)).
The table is written from physical definitions; for the units osyris itself defines the values are
the ones osyris documents (C08 compares those against accepted physical values separately).
"""
import math
from fractions import Fraction as F

import numpy as np

L = (F(1), F(0), F(0), F(0))
M = (F(0), F(1), F(0), F(0))
T = (F(0), F(0), F(1), F(0))
K = (F(0), F(0), F(0), F(1))
NONE = (F(0), F(0), F(0), F(0))


def _d(l=0, m=0, t=0, k=0):
    return (F(l), F(m), F(t), F(k))


AU = 1.495978707e13            # cm, IAU 2012 exact
PC = AU * 648000.0 / math.pi   # cm, IAU 2015 (pint uses au/tan(1"), differs by 8e-12 relative)
YR = 365.25 * 86400.0          # Julian year
C_LIGHT = 2.99792458e10        # cm/s exact
E_CHARGE = 1.602176634e-19     # C exact (SI 2019)

# name (pint canonical name) -> (factor to cgs, dims)
TABLE = {
    "centimeter": (1.0, L), "meter": (100.0, L), "kilometer": (1.0e5, L), "millimeter": (0.1, L),
    "astronomical_unit": (AU, L), "parsec": (PC, L), "kiloparsec": (1e3 * PC, L),
    "light_year": (C_LIGHT * YR, L),
    "solar_radius": (6.957e10, L), "earth_radius": (6.3781e8, L), "jupiter_radius": (7.1492e9, L),
    "gram": (1.0, M), "kilogram": (1000.0, M),
    "solar_mass": (1.9889e33, M), "earth_mass": (5.97216787e27, M), "jupiter_mass": (1.8981246e30, M),
    "second": (1.0, T), "minute": (60.0, T), "hour": (3600.0, T), "day": (86400.0, T), "year": (YR, T),
    "kiloyear": (1e3 * YR, T), "megayear": (1e6 * YR, T), "gigayear": (1e9 * YR, T),
    "kelvin": (1.0, K),
    "erg": (1.0, _d(2, 1, -2)), "joule": (1.0e7, _d(2, 1, -2)),
    "electron_volt": (E_CHARGE * 1e7, _d(2, 1, -2)),
    "watt": (1.0e7, _d(2, 1, -3)),
    "solar_luminosity": (3.828e33, _d(2, 1, -3)), "bolometric_luminosity": (3.0128e35, _d(2, 1, -3)),
    "dyne": (1.0, _d(1, 1, -2)), "newton": (1.0e5, _d(1, 1, -2)),
    "barye": (1.0, _d(-1, 1, -2)), "pascal": (10.0, _d(-1, 1, -2)),
    "hertz": (1.0, _d(0, 0, -1)),
    "percent": (0.01, NONE),
    "radiation_constant": (7.56591469318689378e-15, _d(-1, 1, -2, -4)),
    # Gaussian unit of magnetic field, as pint's cgs registry reduces it
    "gauss": (1.0, (F(-1, 2), F(1, 2), F(-1), F(0))),
}

# Strings handed to osyris (the spelling) -> (factor, dims) computed from TABLE
FAMILIES = {
    "length": ["cm", "m", "km", "au", "pc", "ly", "R_sun", "R_earth", "R_jup"],
    "mass": ["g", "kg", "M_sun", "M_earth", "M_jup"],
    "time": ["s", "hr", "day", "yr", "kyr", "Myr"],
    "velocity": ["cm/s", "m/s", "km/s", "au/yr", "pc/Myr"],
    "density": ["g/cm**3", "kg/m**3", "M_sun/pc**3", "M_earth/R_earth**3"],
    "energy": ["erg", "J", "eV"],
    "luminosity": ["erg/s", "W", "L_sun", "L_bol0"],
    "temperature": ["K"],
    "frequency": ["Hz", "1/s", "1/yr"],
    "wavenumber": ["1/cm", "1/m"],
    "force": ["dyn", "N"],
    "pressure": ["Ba", "Pa", "erg/cm**3", "J/m**3"],
    "acceleration": ["cm/s**2", "m/s**2", "km/s/yr"],
    "dimensionless": ["dimensionless", "cm/m", "km/m", "percent", "g/kg"],
}
FAMILY_OF = {u: fam for fam, us in FAMILIES.items() for u in us}
ALL_UNITS = [u for us in FAMILIES.values() for u in us]

SYMBOL = {
    "cm": "centimeter", "m": "meter", "km": "kilometer", "mm": "millimeter", "au": "astronomical_unit",
    "pc": "parsec", "kpc": "kiloparsec", "ly": "light_year", "R_sun": "solar_radius",
    "R_earth": "earth_radius", "R_jup": "jupiter_radius", "g": "gram", "kg": "kilogram",
    "M_sun": "solar_mass", "M_earth": "earth_mass", "M_jup": "jupiter_mass", "s": "second",
    "min": "minute", "hr": "hour", "day": "day", "yr": "year", "kyr": "kiloyear", "Myr": "megayear",
    "Gyr": "gigayear", "K": "kelvin", "erg": "erg", "J": "joule", "eV": "electron_volt", "W": "watt",
    "L_sun": "solar_luminosity", "L_bol0": "bolometric_luminosity", "dyn": "dyne", "N": "newton",
    "Ba": "barye", "Pa": "pascal", "Hz": "hertz", "ar": "radiation_constant", "G": "gauss",
    "dimensionless": None, "percent": "percent", "1": None,
}


class UnknownUnit(Exception):
    pass


# accepted physical values (cgs) of the units osyris defines itself, with the relative latitude within which a
# definition counts as "the accepted value" (IAU 2015 B3 nominal radii and luminosities are exact; masses follow from
# GM / G and differ between compilations by a few 1e-4; CODATA radiation constant)
ACCEPTED = {
    "solar_mass": (1.98841e33, 1e-3), "earth_mass": (5.9722e27, 1e-3), "jupiter_mass": (1.89813e30, 1e-3),
    "solar_radius": (6.957e10, 1e-6), "earth_radius": (6.3781e8, 1e-6), "jupiter_radius": (7.1492e9, 1e-6),
    "solar_luminosity": (3.828e33, 1e-6), "bolometric_luminosity": (3.0128e35, 1e-6),
    "radiation_constant": (7.565733e-15, 1e-4),
}
_CALIBRATED = {}


def calibrate(osyris):
    """Take the factors of the nine osyris-defined units from the live registry when they lie within the accepted
    latitude (a maintainer may legitimately update solar_mass to the current IAU value: every check would otherwise
    report the new number as a wrong conversion).  A definition outside the latitude keeps the frozen factor, so it is
    reported (by C08's catalogue and by every conversion that involves it)."""
    for name, (val, tol) in ACCEPTED.items():
        f, dims = TABLE[name]
        base = "cm**{}*g**{}*s**{}*K**{}".format(*[float(x) for x in dims])
        try:
            live = float((1.0 * osyris.units(name)).to(base).magnitude)
        except Exception:
            continue
        if abs(live / val - 1) <= tol:
            TABLE[name] = (live, dims)
            _CALIBRATED[name] = live
    return dict(_CALIBRATED)


def umul(a, b):
    return (a[0] * b[0], tuple(x + y for x, y in zip(a[1], b[1])))


def udiv(a, b):
    return (a[0] / b[0], tuple(x - y for x, y in zip(a[1], b[1])))


def upow(a, k):
    kk = F(k).limit_denominator(1000) if not isinstance(k, F) else k
    return (a[0] ** float(k), tuple(x * kk for x in a[1]))


ONE = (1.0, NONE)


def parse(spelling):
    """Parse the small expression grammar used by the generators: a/b, a*b, a**k with symbols."""
    s = spelling.strip()
    if s in ("", "dimensionless"):
        return ONE
    out = ONE
    sign = 1
    tok = ""
    parts = []
    i = 0
    # split on * and / at top level (no parentheses used by the generators), treating ** as power
    s2 = s.replace("**", "^")
    cur = ""
    op = "*"
    for ch in s2:
        if ch in "*/":
            parts.append((op, cur.strip()))
            op = ch
            cur = ""
        else:
            cur += ch
    parts.append((op, cur.strip()))
    for op, term in parts:
        if "^" in term:
            sym, k = term.split("^")
            k = F(k.strip())
        else:
            sym, k = term, F(1)
        sym = sym.strip()
        name = SYMBOL.get(sym, sym)
        if name is None:
            u = ONE
        elif name in TABLE:
            u = TABLE[name]
        else:
            raise UnknownUnit(spelling)
        u = upow(u, k)
        out = umul(out, u) if op == "*" else udiv(out, u)
    return out


def from_pint(unit):
    """Translate a pint Unit by walking its name->exponent container (pint's conversion is never asked)."""
    out = ONE
    for name, exp in dict(unit._units).items():
        if name not in TABLE:
            raise UnknownUnit(name)
        e = F(exp).limit_denominator(1000)
        out = umul(out, upow(TABLE[name], e))
    return out


def same_dims(a, b):
    return all(abs(float(x - y)) < 1e-9 for x, y in zip(a[1], b[1]))


def is_dimensionless(a):
    return same_dims(a, ONE)


def to_cgs(values, unit):
    return np.asarray(values, dtype=np.float64) * unit[0]


def convert(values, u, v):
    return np.asarray(values, dtype=np.float64) * (u[0] / v[0])


def close(got, want, rtol, atol=0.0):
    got = np.asarray(got, dtype=np.float64)
    want = np.asarray(want, dtype=np.float64)
    if got.shape != want.shape:
        return False
    with np.errstate(invalid="ignore", over="ignore"):
        ok = np.isclose(got, want, rtol=rtol, atol=atol, equal_nan=True)
        # identical infinities
        ok |= (got == want)
    return bool(np.all(ok))


def eps_for(dtype):
    dt = np.dtype(dtype)
    if dt.kind == "f":
        return float(np.finfo(dt).eps)
    return float(np.finfo(np.float64).eps)
