"""Reference space-filling curves (DESIGN.md 2.5).

3-D: table-driven Hilbert curve; the 12-state table is a frozen copy taken from the pinned tree at design time and
     validated here by curve-structure properties that are independent of osyris (bijection, face-adjacency of
     consecutive keys, prefix property).  2-D: the classical xy2d algorithm.  1-D: the cell index.
"""
import numpy as np

_TABLE = [
    1, 2, 3, 2, 4, 5, 3, 5, 0, 1, 3, 2, 7, 6, 4, 5, 2, 6, 0, 7, 8, 8, 0, 7, 0, 7, 1, 6, 3, 4, 2, 5, 0, 9, 10, 9, 1, 1, 11,
    11, 0, 3, 7, 4, 1, 2, 6, 5, 6, 0, 6, 11, 9, 0, 9, 8, 2, 3, 1, 0, 5, 4, 6, 7, 11, 11, 0, 7, 5, 9, 0, 7, 4, 3, 5, 2, 7,
    0, 6, 1, 4, 4, 8, 8, 0, 6, 10, 6, 6, 5, 1, 2, 7, 4, 0, 3, 5, 7, 5, 3, 1, 1, 11, 11, 4, 7, 3, 0, 5, 6, 2, 1, 6, 1, 6,
    10, 9, 4, 9, 10, 6, 7, 5, 4, 1, 0, 2, 3, 10, 3, 1, 1, 10, 3, 5, 9, 2, 5, 3, 4, 1, 6, 0, 7, 4, 4, 8, 8, 2, 7, 2, 3, 2,
    1, 5, 6, 3, 0, 4, 7, 7, 2, 11, 2, 7, 5, 8, 5, 4, 5, 7, 6, 3, 2, 0, 1, 10, 3, 2, 6, 10, 3, 4, 4, 6, 1, 7, 0, 5, 2, 4,
    3,
]
STATE = np.array(_TABLE, dtype=np.int64).reshape((8, 2, 12), order="F")


def hilbert3d(x, y, z, bit_length):
    """Vectorised: integer lattice coordinates (arrays) -> keys (python ints in an object array if > 62 bits)."""
    x = np.asarray(x, dtype=np.int64)
    y = np.asarray(y, dtype=np.int64)
    z = np.asarray(z, dtype=np.int64)
    key = np.zeros(x.shape, dtype=object if 3 * bit_length > 62 else np.int64)
    cstate = np.zeros(x.shape, dtype=np.int64)
    for i in range(bit_length - 1, -1, -1):
        sdigit = ((x >> i) & 1) * 4 + ((y >> i) & 1) * 2 + ((z >> i) & 1)
        nstate = STATE[sdigit, 0, cstate]
        hdigit = STATE[sdigit, 1, cstate]
        key = key * 8 + hdigit
        cstate = nstate
    return key


def hilbert2d(x, y, bit_length):
    x = np.array(x, dtype=np.int64, copy=True)
    y = np.array(y, dtype=np.int64, copy=True)
    n = 1 << bit_length
    d = np.zeros(x.shape, dtype=np.int64)
    s = n >> 1
    while s > 0:
        rx = ((x & s) > 0).astype(np.int64)
        ry = ((y & s) > 0).astype(np.int64)
        d += s * s * ((3 * rx) ^ ry)
        flip = (ry == 0) & (rx == 1)
        x = np.where(flip, n - 1 - x, x)
        y = np.where(flip, n - 1 - y, y)
        swap = ry == 0
        x, y = np.where(swap, y, x), np.where(swap, x, y)
        s >>= 1
    return d


def keys(ijk, ndim, bit_length):
    """ijk: int array [n, ndim] of lattice coordinates at bit_length bits -> keys."""
    ijk = np.asarray(ijk, dtype=np.int64)
    if ndim == 1:
        return ijk[:, 0].copy()
    if ndim == 2:
        return hilbert2d(ijk[:, 0], ijk[:, 1], bit_length)
    return hilbert3d(ijk[:, 0], ijk[:, 1], ijk[:, 2], bit_length)


def structure_report(ndim, bit_length):
    """Exhaustive curve-structure check -> list of problems (empty = ok)."""
    n = 1 << bit_length
    grids = np.meshgrid(*[np.arange(n)] * ndim, indexing="ij")
    ijk = np.stack([g.ravel() for g in grids], axis=1)
    k = np.asarray(keys(ijk, ndim, bit_length), dtype=np.int64)
    problems = []
    if sorted(k.tolist()) != list(range(n ** ndim)):
        problems.append("not a bijection onto [0, n^d)")
        return problems
    order = np.argsort(k)
    steps = np.abs(np.diff(ijk[order], axis=0)).sum(axis=1)
    if not np.all(steps == 1):
        problems.append("consecutive keys are not face-adjacent")
    if bit_length > 1:
        kc = np.asarray(keys(ijk >> 1, ndim, bit_length - 1), dtype=np.int64)
        if not np.array_equal(k >> ndim, kc):
            problems.append("prefix property violated")
    return problems
