"""Hypothesis strategies producing plain-data RAMSES output cases (DESIGN.md 2.4) + comparison helpers."""
import contextlib
import io
import re
import shutil

import numpy as np
from hypothesis import strategies as st

from . import env
from . import ramses_model as rm
from . import unitmodel as um

HYDRO_EXTRA = ["thermal_pressure", "pressure", "temperature", "internal_energy", "radiative_energy_1",
               "radiative_energy_2", "radiative_energy_10", "radiative_energy_123", "scalar_01", "scalar_02",
               "metallicity", "passive_7", "energy", "radiative_energy"]


@st.composite
def hydro_var_lists(draw, ndim):
    names = ["density"] if draw(st.integers(0, 9)) else []
    vel = draw(st.sampled_from(["ndim", "ndim", "all3", "none", "partial"]))
    comps = {"ndim": "xyz"[:ndim], "all3": "xyz", "none": "", "partial": "xyz"[:max(ndim - 1, 1)]}[vel]
    names += [f"velocity_{c}" for c in comps]
    if draw(st.booleans()):
        side = draw(st.sampled_from(["both", "both", "left"]))
        # both spellings RAMSES descriptors use for the face-centred field: B_x_left and B_left_x
        infix = draw(st.integers(0, 2)) > 0
        names += [(f"B_{c}_left" if infix else f"B_left_{c}") for c in "xyz"]
        if side == "both":
            names += [(f"B_{c}_right" if infix else f"B_right_{c}") for c in "xyz"]
    if draw(st.integers(0, 4)) == 0:
        names += [f"momentum_{c}" for c in comps or "x"]
    extra = draw(st.lists(st.sampled_from(HYDRO_EXTRA), max_size=4, unique=True))
    names += extra
    if draw(st.booleans()):
        names = draw(st.permutations(names))
    names = list(names)[:14]
    names = list(dict.fromkeys(names))
    for cand in ["density", "thermal_pressure", "scalar_01"]:
        if len(names) >= 2:
            break
        if cand not in names:
            names.append(cand)
    return names


logfloat = st.floats(-30, 30).map(lambda e: float(f"{10.0 ** e:.15e}"))

PART_NAMES_D = ["position_x", "position_y", "position_z", "velocity_x", "velocity_y", "velocity_z", "mass",
                "birth_time", "metallicity", "extra_d1"]
PART_NAMES_I = ["identity", "levelp", "extra_i1", "level"]       # ("level": a name the mesh group uses too)
PART_NAMES_B = ["family", "tag", "extra_b1"]


@st.composite
def part_descs(draw, ndim, min_entries=2):
    names = [f"position_{c}" for c in "xyz"[:ndim]] if draw(st.integers(0, 4)) else []
    if draw(st.booleans()):
        names += [f"velocity_{c}" for c in "xyz"[:ndim]]
    pool = [(n, "d") for n in PART_NAMES_D if n not in names and not re.match(r"(position|velocity)_", n)]
    pool += [(n, "i") for n in PART_NAMES_I] + [(n, "b") for n in PART_NAMES_B]
    extra = draw(st.lists(st.sampled_from(pool), max_size=6, unique=True))
    desc = [(n, "d") for n in names] + extra
    if draw(st.booleans()):
        desc = list(draw(st.permutations(desc)))
    if draw(st.integers(0, 3)) == 0:
        # a dimensional variable stored as integer or byte ("whatever its on-disk type")
        cand = [i for i, (n, t) in enumerate(desc) if t == "d" and (n == "mass" or n.startswith("velocity_") or n == "birth_time")]
        if cand:
            i = cand[draw(st.integers(0, len(cand) - 1))]
            desc[i] = (desc[i][0], draw(st.sampled_from(["i", "b"])))
    for cand in [("mass", "d"), ("identity", "i"), ("family", "b")]:
        if len(desc) >= min_entries:
            break
        if cand[0] not in [n for n, _ in desc]:
            desc.append(cand)
    return [list(x) for x in desc[:12]]


SINK_CODE_UNITS = ["1", "m", "l", "t", "l t**-1", "m l**-3", "m l**2 t**-2", "m t**-1", "l**2 t**-1",
                   # general expressions in m, l, t (a blank multiplies): quotients, parentheses, non-integer powers
                   "l/t", "m/l**3", "t**(-1)", "l**0.5", "m l**2/t**2", "(m/l**3) l"]
SINK_LEGACY_UNITS = ["[1]", "[g]", "[cm]", "[km/s]", "[yr]", "[M_sun]", "[au]", "[cm/s]", "[m]", "[m/s]", "[kg]"]
LEGACY_MODEL = {"[1]": "dimensionless", "[g]": "g", "[cm]": "cm", "[km/s]": "km/s", "[yr]": "yr", "[M_sun]": "M_sun",
                "[au]": "au", "[cm/s]": "cm/s", "[m]": "m", "[m/s]": "m/s", "[kg]": "kg"}      # [m] is the metre, not the code mass


@st.composite
def sink_specs(draw, ndim, one_column_ok=False):
    mode = draw(st.sampled_from(["file", "file", "file", "empty", "missing"]))
    if mode != "file":
        return {"mode": mode}
    dialect = draw(st.sampled_from(["code", "code", "legacy"]))
    cols = ["id"]
    units = ["1" if dialect == "code" else "[1]"]
    pos_u = "l" if dialect == "code" else draw(st.sampled_from(["[cm]", "[au]"]))
    vel_u = "l t**-1" if dialect == "code" else draw(st.sampled_from(["[km/s]", "[cm/s]"]))
    if draw(st.integers(0, 4)):
        cols += list("xyz"[:ndim])
        units += [pos_u] * ndim
    if draw(st.booleans()):
        cols += [f"v{c}" for c in "xyz"[:ndim]]
        units += [vel_u] * ndim
    pool = SINK_CODE_UNITS if dialect == "code" else SINK_LEGACY_UNITS
    nextra = draw(st.integers(0, 5))
    for i in range(nextra):
        cols.append(draw(st.sampled_from(["msink", "dmf", "rho", "tform", "acc", "lum", "age", "q"])) + str(i))
        units.append(draw(st.sampled_from(pool)))
    if len(cols) < 2 and not one_column_ok:
        cols.append("msink")
        units.append("m" if dialect == "code" else "[g]")
    return {"mode": "file", "dialect": dialect, "cols": cols, "units": units, "n": draw(st.sampled_from([1, 1, 2, 3, 6]))}


@st.composite
def output_cases(draw, ndims=(1, 2, 3), hilbert=None, with_part=None, with_sink=None, min_cpu=1, max_cpu=9,
                 min_levels=0, simple_units=False):
    ndim = draw(st.sampled_from([d for d in (1, 2, 2, 3, 3) if d in ndims]))
    lmin_max = {1: 5, 2: 3, 3: 2}[ndim]
    levelmin = draw(st.integers(1, lmin_max))
    levelmax = levelmin + draw(st.integers(min_levels, 5 if ndim < 3 else 4))
    nkeys = 1 << (ndim * (levelmax + 1))
    ncpu = draw(st.integers(min(min_cpu, max(nkeys // 2, 1)), min(max_cpu, max(nkeys // 2, 1))))
    nboundary = draw(st.sampled_from([0, 0, 0, 1, 2, 3, 6]))
    case = {
        "ndim": ndim, "ncpu": ncpu, "levelmin": levelmin, "levelmax": levelmax,
        "nboundary": nboundary, "boundary_dims": draw(st.integers(1, ndim)),
        "coarse3": [draw(st.booleans()) for _ in range(3)],
        "noutput": draw(st.sampled_from([1, 1, 2, 5, 30])),
        "keysize": draw(st.sampled_from([8, 8, 16])),
        "boxlen": 1.0 if simple_units else draw(st.sampled_from([1.0, 2.0, 0.5, 1e-3, 1e3, 3.7])),
        "unit_d": 1.0 if simple_units else draw(logfloat),
        "unit_l": 1.0 if simple_units else draw(logfloat),
        "unit_t": 1.0 if simple_units else draw(logfloat),
        "time": draw(st.sampled_from([0.0, 1.0, 0.37, 123.5])),
        "seed": draw(st.integers(0, 2 ** 31 - 2)),
        "refine_p": draw(st.lists(st.sampled_from([0.0, 0.1, 0.3, 0.5, 0.5, 0.9, 1.0]), min_size=1, max_size=5)),
        "deep_branch": draw(st.booleans()),
        "max_cells": 2500,
        "hydro_vars": draw(hydro_var_lists(ndim)),
        "grav": draw(st.booleans()),
        "rt_vars": draw(st.sampled_from([[], [], ["photon_density_1", "photon_flux_1_x", "photon_flux_1_y",
                                                  "photon_flux_1_z"][: 1 + ndim],
                                         ["photon_density_1", "photon_density_2"]])),
        "ordering": ("hilbert" if hilbert else "planar") if hilbert is not None else draw(
            st.sampled_from(["hilbert", "hilbert", "hilbert", "planar"])),
        "key_mode": draw(st.sampled_from(["uniform", "random", "random", "clustered", "cube"])),
        # how the info file prints the bound keys: exactly, or as RAMSES does (E23.15: fifteen significant digits)
        "key_format": draw(st.sampled_from([None, "e23.15", "e23.15"])),
        "ghost_p": draw(st.sampled_from([0.0, 0.5, 0.5, 1.0, 1.0])),
        "nout": draw(st.sampled_from([1, 2, 12, 345, 99999])),
        "use_minus1": draw(st.booleans()),
    }
    wp = draw(st.booleans()) if with_part is None else with_part
    if wp:
        case["part_desc"] = draw(part_descs(ndim))
        case["part_counts"] = draw(st.lists(st.sampled_from([0, 0, 1, 2, 5, 17]), min_size=1, max_size=4))
        case["part_header_lens"] = draw(st.lists(st.sampled_from([0, 4, 8, 12, 16, 40, 1, 3, 7, 13, 1000]), min_size=5, max_size=5))
    ws = draw(st.booleans()) if with_sink is None else with_sink
    if ws:
        case["sink"] = draw(sink_specs(ndim))
    return case


# ------------------------------------------------------------------ running osyris on a case
class Loaded:
    pass


def write_case(case, with_decoys=True):
    """-> (model, scratch path, nout argument for RamsesDataset)"""
    m = rm.build_model(case)
    path = env.scratch_dir("ramses_")
    rm.write_output(m, path)
    nout = case["nout"]
    if case.get("use_minus1"):
        if with_decoys and case["nout"] > 1:
            # a decoy lower-numbered output that must not be picked
            decoy = dict(case, nout=case["nout"] - 1, seed=case["seed"] + 17, part_desc=None, sink=None)
            rm.write_output(rm.build_model(decoy), path)
        nout = -1
    return m, path, nout


def cleanup(path):
    shutil.rmtree(path, ignore_errors=True)


def quiet_load(osyris, nout, path, **kwargs):
    """-> (dataset, captured stdout)"""
    buf = io.StringIO()
    with contextlib.redirect_stdout(buf):
        ds = osyris.RamsesDataset(nout, path=path)
        ds.load(**kwargs)
    return ds, buf.getvalue()


def files_opened(stdout):
    mm = re.search(r"Processing (\d+) files", stdout)
    return int(mm.group(1)) if mm else None


# ------------------------------------------------------------------ expected names after vector assembly
def merged_names(names, ndim):
    """Independent statement of the merge rule: -> (scalars list, {vector name: [component names]})."""
    names = list(names)
    if ndim < 2:
        return names, {}
    fams = {}
    for n in names:
        mm = re.match(r"^(.*)_([xyz])$", n)
        if mm:
            fams.setdefault(("s", mm.group(1), ""), {})[mm.group(2)] = n
            continue
        mm = re.match(r"^(.*?)_([xyz])_(.*)$", n)
        if mm:
            fams.setdefault(("i", mm.group(1), mm.group(3)), {})[mm.group(2)] = n
            continue
        if n in ("x", "y", "z"):
            fams.setdefault(("b", "", ""), {})[n] = n
    vectors = {}
    used = set()
    for (kind, pre, suf), comps in fams.items():
        need = "xyz"[:ndim]
        if all(c in comps for c in need):
            vname = pre if kind == "s" else (f"{pre}_{suf}" if kind == "i" else "position")
            vectors[vname] = [comps[c] for c in need]
            used.update(vectors[vname])
    scalars = [n for n in names if n not in used]
    return scalars, vectors


def phys(arr):
    """osyris Array (or pint Quantity) -> (float64 cgs values, unit model)"""
    if hasattr(arr, "magnitude") and hasattr(arr, "units"):
        u = um.from_pint(arr.units)
        return np.asarray(arr.magnitude, dtype=np.float64) * u[0], u
    u = um.from_pint(arr.unit)
    return np.asarray(arr.values, dtype=np.float64) * u[0], u


def dims_close(d1, d2):
    return all(abs(float(a) - float(b)) < 1e-9 for a, b in zip(d1, d2))


def compare_mesh(osyris, mesh, m, r, exp=None, tag="mesh", rtol=1e-12, check_derived=True, lcap=None):
    """Compare a loaded mesh Datagroup with the model's expected table (all rows, all columns).
    Returns the permutation info or None if a violation was recorded."""
    exp = exp if exp is not None else rm.expected_mesh(m, lcap=lcap)
    ndim = m.ndim
    bits = m.levelmax + 1
    scalars, vectors = merged_names(m.mesh_vars, ndim)
    want_keys = {"level", "cpu", "dx"} | set(scalars) | set(vectors)
    want_keys |= {"position"} if ndim > 1 else {"position_x"}
    nrows = len(exp["level"])
    if check_derived:
        if "density" in m.mesh_vars:
            want_keys.add("mass")
        if "B_left" in vectors and "B_right" in vectors:
            want_keys.add("B_field")
    got_keys = set(mesh.keys())
    if nrows == 0:
        return None
    merged_comps = {c for comps in vectors.values() for c in comps}
    if not want_keys <= got_keys or (got_keys & merged_comps):
        # (further members, e.g. other derived variables, are not excluded by the property)
        r.bad([tag, "keys"], f"mesh keys {sorted(got_keys)}: missing {sorted(want_keys - got_keys)}, components left next to "
              f"their vector {sorted(got_keys & merged_comps)} (ndim={ndim}, vars={m.mesh_vars})")
        return None
    # ---- positions -> lattice ids
    scale = m.boxlen * m.ul
    if ndim > 1:
        pos = mesh["position"]
        if not isinstance(pos, osyris.Vector) or pos.nvec != ndim:
            r.bad([tag, "position-not-vector"], repr(pos))
            return None
        pc = [phys(c) for c in pos._xyz.values()]
    else:
        pc = [phys(mesh["position_x"])]
    for v, u in pc:
        if not dims_close(u[1], (1, 0, 0, 0)):
            r.bad([tag, "unit", "position"], f"position unit dims {u[1]}")
            return None
    got_box = np.stack([v for v, _ in pc], axis=1) / scale
    if len(got_box) != nrows:
        r.bad([tag, "row-count"], f"{len(got_box)} rows loaded, the tree has {nrows} leaves "
              f"(ncpu={m.ncpu}, nboundary={m.nboundary}, levels {m.levelmin}-{m.levelmax}, ndim={ndim})")
        return None
    lat = got_box * (1 << bits)
    lat_i = np.round(lat)
    if np.max(np.abs(lat - lat_i)) > 1e-6 or np.any(lat_i < 0) or np.any(lat_i > (1 << bits)):
        r.bad([tag, "geometry", "off-lattice"], f"cell centres are not on the 2^-{bits} lattice of the box: "
              f"max deviation {np.max(np.abs(lat - lat_i))!r}")
        return None
    gid = rm.lattice_id(lat_i.astype(np.int64), bits)
    wid = rm.lattice_id(exp["lattice"], bits)
    if len(np.unique(gid)) != len(gid):
        r.bad([tag, "duplicate-cells"], f"{len(gid) - len(np.unique(gid))} duplicated cell centres among {len(gid)} rows")
        return None
    gs, ws = np.argsort(gid), np.argsort(wid)
    if not np.array_equal(gid[gs], wid[ws]):
        missing = len(np.setdiff1d(wid, gid))
        r.bad([tag, "wrong-cells"], f"{missing} leaf cells missing / replaced by other centres (of {nrows})")
        return None

    def cmp(name, got_arr, want, dims, exact=False, fac=1.0):
        g, u = phys(got_arr)
        if not dims_close(u[1], dims):
            r.bad([tag, "unit", name], f"{name}: unit [{got_arr.unit}] dims {[float(x) for x in u[1]]} expected {dims}")
            return False
        if len(g) != nrows:
            r.bad([tag, "column-length", name], f"{name}: {len(g)} values for {nrows} rows")
            return False
        g = g[gs]
        w = np.asarray(want, dtype=np.float64)[ws]
        with np.errstate(all="ignore"):
            ok = (g == w) if exact else (np.abs(g - w) <= rtol * np.abs(w))
        if not np.all(ok):
            i = int(np.argmin(ok))
            kind = "ghost-values" if np.any(g / fac < -1e32) else "values"
            r.bad([tag, kind, name], f"{name}: row at lattice {exp['lattice'][ws][i].tolist()}: got {g[i]!r} want {w[i]!r} "
                  f"({int((~ok).sum())} of {len(ok)} rows differ)")
            return False
        return True

    if not cmp("level", mesh["level"], exp["level"], (0, 0, 0, 0), exact=True):
        return None
    if not cmp("cpu", mesh["cpu"], exp["cpu"], (0, 0, 0, 0), exact=True):
        return None
    if not cmp("dx", mesh["dx"], exp["dx"], (1, 0, 0, 0)):
        return None
    for name in scalars:
        f, dims = rm.var_factor(name, m.ud, m.ul, m.ut)
        if not isinstance(mesh[name], osyris.Array):
            r.bad([tag, "scalar-is-vector", name], repr(mesh[name]))
            return None
        if not cmp(name, mesh[name], exp[name], dims, fac=f):
            return None
    for vname, comps in vectors.items():
        vec = mesh[vname]
        if not isinstance(vec, osyris.Vector) or vec.nvec != len(comps):
            r.bad([tag, "vector-assembly", vname], f"{vname}: {vec!r}")
            return None
        for c, cname in zip("xyz", comps):
            f, dims = rm.var_factor(cname, m.ud, m.ul, m.ut)
            if not cmp(f"{vname}.{c}", getattr(vec, c), exp[cname], dims, fac=f):
                return None
    if check_derived:
        if "density" in m.mesh_vars:
            want = exp["density"] * exp["dx"] ** 3
            g, u = phys(mesh["mass"])
            if not dims_close(u[1], (0, 1, 0, 0)):
                r.bad([tag, "unit", "mass"], f"mass unit {mesh['mass'].unit}")
                return None
            if not np.all(np.abs(g[gs] - want[ws]) <= 1e-9 * np.abs(want[ws])):
                r.bad([tag, "derived", "mass"], "cell mass != density * dx^3")
                return None
        if "B_field" in want_keys:
            bf = mesh["B_field"]
            if not isinstance(bf, osyris.Vector) or bf.nvec != ndim:
                r.bad([tag, "derived", "B_field-not-a-vector"], repr(bf))
                return None
            for c, lname, rname in zip("xyz", vectors["B_left"], vectors["B_right"]):
                want = 0.5 * (exp[lname] + exp[rname])
                g, u = phys(getattr(bf, c))
                if not dims_close(u[1], (-0.5, 0.5, -1, 0)) or len(g) != nrows:
                    r.bad([tag, "derived", "B_field-unit-or-length"], f"B_field.{c}: unit [{getattr(bf, c).unit}], {len(g)} rows")
                    return None
                scale_b = np.abs(exp[lname]) + np.abs(exp[rname])
                if not np.all(np.abs(g[gs] - want[ws]) <= 1e-12 * scale_b[ws]):
                    r.bad([tag, "derived", "B_field"], f"B_field.{c} != (B_left+B_right)/2")
                    return None
    return {"got_sort": gs, "want_sort": ws, "exp": exp}
