"""Random AMR leaf tilings as osyris Datagroups + brute-force point location (DESIGN.md 2.6)."""
import numpy as np
from hypothesis import strategies as st

from . import unitmodel as um

LEN_UNITS = ["cm", "m", "km", "au", "pc"]


@st.composite
def mesh_specs(draw, dims=(2, 3), rich=False):
    d = draw(st.sampled_from(list(dims)))
    if rich:
        return {
            "d": d, "seed": draw(st.integers(0, 2 ** 31 - 2)), "base": draw(st.sampled_from([1, 1, 2])),
            "depth": draw(st.integers(1, 3)), "refine_p": draw(st.sampled_from([0.15, 0.3, 0.5, 0.8])),
            "hole_p": draw(st.sampled_from([0.0, 0.05, 0.2, 0.3])), "subtree_hole_p": draw(st.sampled_from([0.0, 0.1])),
            "L": draw(st.sampled_from([1.0, 2.0, 0.03, 7.5e3])),
            "corner": [draw(st.sampled_from([0.0, 0.0, -0.5, 3.0])) for _ in range(3)],
            "pos_unit": draw(st.sampled_from(LEN_UNITS)),
            "dx_unit": draw(st.sampled_from(["same", "same", "same", "same", "same", "other"])), "max_cells": 800,
        }
    return {
        "d": d, "seed": draw(st.integers(0, 2 ** 31 - 2)),
        "base": draw(st.sampled_from([0, 1, 1, 2])),                  # base grid 2^base per dimension
        "depth": draw(st.integers(0, 4 if d == 2 else 3)),
        "refine_p": draw(st.sampled_from([0.0, 0.15, 0.3, 0.5, 0.8])),
        "hole_p": draw(st.sampled_from([0.0, 0.0, 0.05, 0.3])),
        "subtree_hole_p": draw(st.sampled_from([0.0, 0.0, 0.1])),
        "L": draw(st.sampled_from([1.0, 2.0, 0.03, 7.5e3])),
        "corner": [draw(st.sampled_from([0.0, 0.0, -0.5, 3.0])) for _ in range(3)],   # in units of L
        "pos_unit": draw(st.sampled_from(LEN_UNITS)),
        "dx_unit": draw(st.sampled_from(["same", "same", "same", "same", "same", "other"])),
        "max_cells": 800,
    }


class Mesh:
    pass


def build(spec):
    """-> Mesh with centres [n,d], half [n], level [n] in length units of L (before unit scaling), row-permuted."""
    rng = np.random.RandomState(spec["seed"])
    d = spec["d"]
    L = spec["L"]
    nb = 1 << spec["base"]
    size0 = L / nb
    cells = []   # (centre tuple, size, level)
    grids = np.meshgrid(*[np.arange(nb)] * d, indexing="ij")
    todo = [((np.array([g.ravel()[i] for g in grids]) + 0.5) * size0, size0, 0) for i in range(nb ** d)]
    count = 0
    while todo:
        c, s, lev = todo.pop()
        if lev < spec["depth"] and rng.random_sample() < spec["refine_p"] and count + len(todo) < spec["max_cells"]:
            if rng.random_sample() < spec["subtree_hole_p"]:
                continue                 # a whole sub-tree is missing
            for k in range(2 ** d):
                off = np.array([((k >> j) & 1) - 0.5 for j in range(d)]) * s / 2
                todo.append((c + off, s / 2, lev + 1))
        else:
            if rng.random_sample() < spec["hole_p"]:
                continue
            cells.append((c, s, lev))
            count += 1
    m = Mesh()
    m.spec = spec
    m.d = d
    if not cells:
        cells = [(np.full(d, 0.5 * L), L, 0)]
    corner = np.array(spec["corner"][:d]) * L
    cen = np.array([c for c, _, _ in cells]) + corner[None, :]
    size = np.array([s for _, s, _ in cells])
    lev = np.array([l for _, _, l in cells])
    perm = rng.permutation(len(cells))
    m.centre = cen[perm]
    m.size = size[perm]
    m.level = lev[perm]
    m.n = len(perm)
    m.lo = corner
    m.hi = corner + L
    # values: distinct integer-valued floats (which cell is readable from the value)
    m.scalar1 = (np.arange(m.n) + 1.0)
    m.scalar2 = 1000.0 + 7.0 * rng.permutation(m.n)
    m.vec = rng.randint(-9, 10, size=(m.n, 3)).astype(np.float64)
    m.vec[np.all(m.vec == 0, axis=1)] = 1.0
    m.mass = rng.uniform(0.5, 2.0, m.n)
    m.vel = rng.normal(size=(m.n, 3))
    # a signed integer column with a zero (like an AMR level or an id offset): distinct values, drawn after the others so
    # that earlier columns keep their values
    m.scalar3 = (3 * (np.random.RandomState(spec["seed"] + 17).permutation(m.n) - m.n // 2)).astype(np.int64)
    return m


def datagroup(m, osyris):
    spec = m.spec
    pu = spec["pos_unit"]
    du = pu
    if spec["dx_unit"] == "other":
        du = LEN_UNITS[(LEN_UNITS.index(pu) + 1) % len(LEN_UNITS)]
    fac = um.parse(pu)[0] / um.parse(du)[0]
    dg = osyris.Datagroup()
    d = m.d
    dg["position"] = osyris.Vector(*[osyris.Array(values=m.centre[:, i].copy(), unit=pu) for i in range(d)])
    dg["dx"] = osyris.Array(values=m.size * fac, unit=du)
    dg["scalar1"] = osyris.Array(values=m.scalar1.copy(), unit="K")
    dg["scalar2"] = osyris.Array(values=m.scalar2.copy(), unit="g/cm**3")
    dg["scalar3"] = osyris.Array(values=m.scalar3.copy(), unit="erg")
    dg["vec"] = osyris.Vector(*[osyris.Array(values=m.vec[:, i].copy(), unit="km/s") for i in range(d)])
    dg["mass"] = osyris.Array(values=m.mass.copy(), unit="g")
    dg["velocity"] = osyris.Vector(*[osyris.Array(values=m.vel[:, i].copy(), unit="cm/s") for i in range(d)])
    return dg


def locate(m, pts, eps=1e-9):
    """Brute-force point location.  pts [npts, d] (same length unit as m.centre).
    -> (inside index or -1 [npts], touch matrix bool [npts, ncell])"""
    npts = len(pts)
    idx = np.empty(npts, dtype=np.int64)
    touch = np.empty((npts, m.n), dtype=bool)
    h = 0.5 * m.size[None, :]
    cmax = np.max(np.abs(m.centre), axis=1)[None, :]
    # in chunks, so that the [npts, ncell, d] difference array stays small
    step = max(1, int(2.0e6 // max(m.n * m.d, 1)))
    for a in range(0, npts, step):
        pp = pts[a:a + step]
        far = np.max(np.abs(pp[:, None, :] - m.centre[None, :, :]), axis=2)          # [chunk, ncell]
        # coordinates far from zero lose digits: the band scales with the coordinate magnitude too
        band = eps * (h + np.max(np.abs(pp), axis=1)[:, None] + cmax)
        inside = far < h - band
        touch[a:a + step] = far <= h + band
        idx[a:a + step] = np.where(inside.any(axis=1), np.argmax(inside, axis=1), -1)
    return idx, touch
